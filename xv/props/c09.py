"""C09 — Running a command leaves the shell session as it found it."""

from __future__ import annotations

import gc
import json
import os
import signal
import sys
import threading
import time
import weakref

from .. import common
from ..codec import Sym

ID = "C09"
LEVEL = "proof"
PROPS_MODULES = ["XonshVerif.Props.C09"]
TECHNIQUE = (
    "Lean 4 proof (resource ledger: every open / close / start / wait / handler swap performed by cmds_to_specs, "
    "CommandPipeline.__init__ / end and the proc classes, as an event program over named resources; ownership invariant by "
    "induction on the stage list and the redirect lists; LIFO handler discipline) + differential correspondence: generated "
    "pipelines x failure modes run through the real Execer in a forked worker, /proc/self/fd, children, threads, handlers, "
    "cwd, std streams, environment and a self-sent SIGINT compared before/after and with the ledger's prediction"
)
LEVEL_TEXT = (
    "proof (partial): the ledger model (lean/XonshVerif/Model/FdLedger.lean) is the list of acquire / release events the code "
    "performs for a command: redirect files and the stream setters, the `|` PipeChannels, capture channels and their wrappers, "
    "started children and helper threads, swapped signal handlers; the except-branch of cmds_to_specs, the start-failure branch "
    "of CommandPipeline.__init__, _close_prev_procs / _close_proc, the waits and the handler restores. Proved for ALL pipelines "
    "(any number of stages of any kind, any redirect lists incl. unopenable / conflicting ones, any capture form, any failing "
    "stage and phase): C09_balanced (with the two proposed repairs: the ledger after the command = the ledger before, on every "
    "exit path that ends the pipeline), C09_balanced_partial (the code as it is, with the exact guard: no stage other than the "
    "first fails to start) and its converse C09_leak_exact, C09_cex_* witnesses for the three leaks of the unchanged code (a later "
    "stage fails to start; a background pipeline; a callable alias before the last stage keeps SIGINT), C09_close_idem (closing "
    "is idempotent; extra closes never change the outcome), C09_handlers_restored (+ _partial with the exact guard), "
    "C09_held_bounded (while the raised exception is still referenced only the failing stage's own redirect files / the one "
    "unattached pipe stay open), C09_repeat (any number of repetitions of a balanced command leaves the ledger unchanged) and "
    "C09_repeat_grows (each repetition of a leaking command adds its leak again). Tie: generated pipelines x failure modes on "
    "the real code; every built SubprocSpec is audited; the real sequence of os.pipe / open calls is matched against the "
    "ledger's open events; repetition stream for the cumulative clause."
)
LEVEL_NOTE = (
    "Trusted: Lean kernel + standard axioms; the harness (forked worker, /proc sampling, monkeypatched os.pipe / os.openpty / "
    "os.close / open to record the real events); the OS. Observed by the tie only, not proved: that a waited-for child has "
    "exited, that a joined thread ends, terminal ownership (checked on a pty in the interactive stream), environment and cwd "
    "equality, the effect of SIGINT. Helper threads that end by themselves within 2 s of the command (PrevProcCloser polls "
    "every 0.1 s) are tolerated. Ctrl-C DURING a command, job control (fg/bg/Ctrl-Z) and $XONSH_STORE_STDIN are outside the generated space."
)

K_LATE = "late-start-failure-leaves-previous-stage"
K_SIGINT = "alias-before-last-stage-keeps-sigint-handler"
K_BG = "background-pipeline-keeps-descriptors"
K_HELD = "failed-build-spec-closed-only-by-refcount"
K_HANG = "callable-alias-pipeline-intermittent-hang"
K_WAIT = "blocked-producer-is-waited-for-before-its-consumer-is-torn-down"
K_ABORT = "end-left-early-keeps-the-last-handlers"
K_STD = "overlapping-alias-threads-leave-sys-stdout-on-the-dispatcher"

SIGS = ["SIGINT", "SIGTSTP", "SIGQUIT", "SIGWINCH"]


# ======================================================================================= worker side (forked child)
_S = {}


def _alias_t(args, stdin=None, stdout=None, stderr=None):
    """t <read:none|line|all> <write:none|small|big> <rc> <raise:0|1> <err:0|1>"""
    rd, wr, rc, rs = args[0], args[1], int(args[2]), args[3] == "1"
    if stdin is not None:
        if rd == "all":
            stdin.read()
        elif rd == "line":
            stdin.readline()
    if len(args) > 4 and args[4] == "1":
        print("err", file=stderr)
    if wr == "small":
        print("hi", file=stdout)
    elif wr == "big":
        for i in range(20000):
            print(i, file=stdout)
    elif wr == "bad":
        stdout.flush()
        stdout.buffer.write(b"ok\n\xff\xfe\n")
        stdout.flush()
    if rs:
        raise RuntimeError("boom")
    return rc


def session():
    if _S:
        return _S
    common.setup_repo_imports()
    # nothing the commands print may reach the check's own output; nothing may read the check's stdin
    dn = os.open(os.devnull, os.O_RDWR)
    for fd in (0, 1, 2):
        os.dup2(dn, fd)
    os.close(dn)
    root = common.scratch_root() / f"c09-{os.getpid()}"
    root.mkdir(parents=True, exist_ok=True)
    (root / "in.txt").write_text("line1\nline2\n")
    (root / "notexec").write_text("#!/bin/sh\necho no\n")
    os.chmod(root / "notexec", 0o644)
    os.chdir(root)
    signal.signal(signal.SIGINT, signal.default_int_handler)
    for s in (signal.SIGTSTP, signal.SIGQUIT, signal.SIGWINCH):
        signal.signal(s, signal.SIG_DFL)
    from xonsh.built_ins import XSH
    from xonsh.execer import Execer
    from xonsh.tools import unthreadable

    execer = Execer()
    XSH.load(execer=execer, inherit_env=False)
    env = XSH.env
    env["XONSH_SHOW_TRACEBACK"] = False
    env["PATH"] = ["/usr/bin", "/bin"]
    env["XONSH_INTERACTIVE"] = False
    env["HOME"] = str(root)
    env["PWD"] = str(root)
    XSH.aliases["t"] = _alias_t

    @unthreadable
    def u(args, stdin=None, stdout=None, stderr=None):
        print("hi", file=stdout)
        return int(args[0]) if args else 0

    XSH.aliases["u"] = u
    _S.update(execer=execer, XSH=XSH, root=str(root))
    _install_tracer()
    # warm up: imports, caches, lazy objects (their one-off descriptors must not count)
    for src in ("echo warm | cat > /dev/null", "x = $(echo warm)", "t none small 0 0 | t all none 0 0", "x = !(echo warm)\nx.end()"):
        try:
            execer.exec(src + "\n", glbs={"__name__": "xv"}, locs=None, filename="<c09-warm>")
        except BaseException:  # noqa: BLE001
            pass
    _reset()
    return _S


# ---------------------------------------------------------------------------------------- tracer
class _Trace:
    on = False
    events = []  # real acquisitions made by xonsh code, in order
    closes = []  # (fd, ok) os.close calls on traced fds
    specs = []  # weakrefs of every SubprocSpec built
    wait_timeouts = []  # pids whose Popen.wait(timeout=...) expired
    waited = []  # ids of proc objects whose wait() was called


def _caller_is_xonsh(depth=2):
    try:
        f = sys._getframe(depth)
    except ValueError:
        return False
    for _ in range(3):
        if f is None:
            return False
        m = f.f_globals.get("__name__", "")
        if m.startswith("xonsh."):
            return m
        if m not in ("pty", "xonsh.lib.lazyimps"):
            return False
        f = f.f_back
    return False


def _install_tracer():
    import builtins

    real_pipe, real_openpty, real_close, real_open = os.pipe, os.openpty, os.close, builtins.open

    def pipe():
        r, w = real_pipe()
        if _Trace.on and _caller_is_xonsh():
            _Trace.events.append({"k": "pipe", "r": r, "w": w, "ino": os.fstat(r).st_ino, "lr": os.readlink(f"/proc/self/fd/{r}"), "lw": os.readlink(f"/proc/self/fd/{w}")})
        return r, w

    def openpty():
        r, w = real_openpty()
        if _Trace.on and _caller_is_xonsh():
            _Trace.events.append({"k": "pipe", "pty": True, "r": r, "w": w, "lr": os.readlink(f"/proc/self/fd/{r}"), "lw": os.readlink(f"/proc/self/fd/{w}")})
        return r, w

    def close(fd):
        if _Trace.on:
            fr = sys._getframe(1)
            if fr.f_globals.get("__name__") == "xonsh.procs.pipes":
                # PipeChannel.close_reader / close_writer: one channel object must close each of its two numbers at most once
                _Trace.closes.append((id(fr.f_locals.get("self")), fd))
        return real_close(fd)

    def open_(file, *a, **kw):
        f = real_open(file, *a, **kw)
        if _Trace.on:
            m = _caller_is_xonsh()
            fn = sys._getframe(1).f_code.co_name
            if m and m.startswith("xonsh.procs"):
                if isinstance(file, int):
                    if m == "xonsh.procs.pipes":
                        _Trace.events.append({"k": "wrap", "fd": file, "ref": weakref.ref(f)})
                elif fn == "safe_open":
                    _Trace.events.append({"k": "file", "fd": f.fileno(), "path": os.path.abspath(str(file)), "link": os.readlink(f"/proc/self/fd/{f.fileno()}")})
        return f

    os.pipe, os.openpty, os.close, builtins.open = pipe, openpty, close, open_
    import xonsh.procs.specs as xs

    real_build = xs.SubprocSpec.build.__func__

    def build(kls, cmd, **kw):
        spec = None
        try:
            spec = real_build(kls, cmd, **kw)
            return spec
        finally:
            if _Trace.on and spec is not None:
                _Trace.specs.append(weakref.ref(spec))

    xs.SubprocSpec.build = classmethod(build)
    import subprocess

    real_wait = subprocess.Popen.wait

    def wait(self, timeout=None):
        if _Trace.on and timeout is None:
            _Trace.waited.append(id(self))
        try:
            return real_wait(self, timeout=timeout)
        except subprocess.TimeoutExpired:
            if _Trace.on:
                _Trace.wait_timeouts.append(self.pid)
            raise

    subprocess.Popen.wait = wait
    import xonsh.procs.posix as xpo
    import xonsh.procs.proxies as xpr

    for kls in (xpo.PopenThread, xpr.ProcProxyThread, xpr.ProcProxy):
        def mk(real):
            def w(self, *a, **kw):
                if _Trace.on:
                    _Trace.waited.append(id(self))
                return real(self, *a, **kw)
            return w
        kls.wait = mk(kls.wait)
    real_init = xs.SubprocSpec.__init__

    def init(self, *a, **kw):
        real_init(self, *a, **kw)
        if _Trace.on:
            _Trace.specs.append(weakref.ref(self))

    xs.SubprocSpec.__init__ = init


def _still_open(e):
    """which parts of a traced acquisition are open right now"""
    out = []
    if e["k"] == "pipe":
        for side in ("r", "w"):
            try:
                if os.readlink(f"/proc/self/fd/{e[side]}") == e["l" + side]:
                    out.append(side)
            except OSError:
                pass
    elif e["k"] == "file":
        try:
            if os.readlink(f"/proc/self/fd/{e['fd']}") == e["link"]:
                out.append("f")
        except OSError:
            pass
    elif e["k"] == "wrap":
        o = e["ref"]()
        if o is not None and not o.closed:
            out.append("x")
    return out


# ---------------------------------------------------------------------------------------- observation
def _fds():
    out = {}
    for n in os.listdir("/proc/self/fd"):
        try:
            out[int(n)] = os.readlink(f"/proc/self/fd/{n}")
        except OSError:
            pass
    return out


def _children():
    out = {}
    try:
        tasks = os.listdir("/proc/self/task")
    except OSError:
        tasks = []
    for t in tasks:
        try:
            pids = open(f"/proc/self/task/{t}/children").read().split()
        except OSError:
            continue
        for pid in pids:
            try:
                st = open(f"/proc/{pid}/stat").read()
                out[int(pid)] = st[st.rindex(")") + 2]
            except (OSError, ValueError):
                pass
    return out


def _threads():
    return sorted(type(t).__name__ for t in threading.enumerate() if t is not threading.main_thread())


def _hdesc(h, base):
    if h is base:
        return "orig"
    slf = getattr(h, "__self__", None)
    if slf is not None and type(slf).__name__ in ("ProcProxyThread", "PopenThread"):
        spec = getattr(slf, "spec", None)
        return [type(slf).__name__, getattr(spec, "pipeline_index", None)]
    return repr(h)[:80]


def _chain_depth():
    h, n = signal.getsignal(signal.SIGINT), 0
    while n < 100000:
        slf = getattr(h, "__self__", None)
        if slf is None or not hasattr(slf, "old_int_handler"):
            break
        n += 1
        h = slf.old_int_handler
    return n


def _snapshot():
    XSH = _S["XSH"]
    return {
        "fds": _fds(),
        "children": _children(),
        "threads": _threads(),
        "cwd": os.getcwd(),
        "std": [sys.stdin, sys.stdout, sys.stderr, sys.__stdout__, sys.__stderr__],
        "handlers": [signal.getsignal(getattr(signal, s)) for s in SIGS],
        "env": dict(XSH.env.detype()),
        "osenv": dict(os.environ),
    }


def _sigint_effect():
    try:
        os.kill(os.getpid(), signal.SIGINT)
        for _ in range(100):
            time.sleep(0.005)
        return "no interrupt"
    except KeyboardInterrupt:
        return "KeyboardInterrupt"
    except BaseException as e:  # noqa: BLE001
        return type(e).__name__


def _reset():
    """put the worker back into a clean state between cases (whatever the last case leaked)"""
    XSH = _S["XSH"]
    import subprocess

    import xonsh.procs.jobs as xj

    signal.signal(signal.SIGINT, signal.default_int_handler)
    for s in (signal.SIGTSTP, signal.SIGQUIT, signal.SIGWINCH):
        signal.signal(s, signal.SIG_DFL)
    XSH.last = XSH.lastcmd = None
    try:
        XSH.interface.lastcmd = None
    except Exception:  # noqa: BLE001
        pass
    for pid in list(_children()):
        try:
            os.kill(pid, signal.SIGKILL)
        except OSError:
            pass
    for pid in list(_children()):
        try:
            os.waitpid(pid, 0)
        except OSError:
            pass
    try:
        xj.get_jobs().clear()
        xj.get_tasks().clear()
    except Exception:  # noqa: BLE001
        pass
    subprocess._active.clear()
    base = _S.get("base_fds")
    gc.collect()
    if base is not None:
        for fd, link in _fds().items():
            if fd not in base and not link.startswith("/proc/"):
                try:
                    os.close(fd)
                except OSError:
                    pass
    else:
        _S["base_fds"] = set(_fds())
    deadline = time.time() + 3
    while time.time() < deadline and _threads():
        time.sleep(0.01)
    if os.getcwd() != _S["root"]:
        os.chdir(_S["root"])
    gc.collect()


def _exec(src):
    try:
        _S["execer"].exec(src + "\n", glbs={"__name__": "xv"}, locs=None, filename="<c09>")
    except BaseException as e:  # noqa: BLE001
        return e
    return None


def _delta(a, b):
    """what changed between two snapshots, in comparable terms"""
    d = {}
    add = {fd: l for fd, l in b["fds"].items() if a["fds"].get(fd) != l}
    rem = {fd: l for fd, l in a["fds"].items() if fd not in b["fds"]}
    if add:
        d["fds_added"] = add
    if rem:
        d["fds_removed"] = rem
    newc = {pid: st for pid, st in b["children"].items() if pid not in a["children"]}
    if newc:
        d["children"] = newc
    if b["threads"] != a["threads"]:
        d["threads"] = b["threads"]
    if b["cwd"] != a["cwd"]:
        d["cwd"] = b["cwd"]
    if any(x is not y for x, y in zip(a["std"], b["std"])):
        d["std"] = {
            nm: [type(y).__name__, "default is the original object" if getattr(y, "default", None) is x else "unrelated object"]
            for nm, x, y in zip(["sys.stdin", "sys.stdout", "sys.stderr", "sys.__stdout__", "sys.__stderr__"], a["std"], b["std"])
            if x is not y
        }
    hs = [_hdesc(h, base) for h, base in zip(b["handlers"], a["handlers"])]
    if any(h != "orig" for h in hs):
        d["handlers"] = dict(zip(SIGS, hs))
    for key in ("env", "osenv"):
        ch = {k: [a[key].get(k), b[key].get(k)] for k in set(a[key]) | set(b[key]) if a[key].get(k) != b[key].get(k)}
        if ch:
            d[key] = ch
    return d


def run_case(item):
    """Run one generated command on the real code, in a child forked from the warmed-up worker (so that whatever the command
    leaks - stuck threads, dead Ctrl-C, replaced sys.stdout - cannot reach the next case)."""
    session()
    # a stale PopenThread handler answers a SIGINT with killpg(): the worker shares the group with its case children
    signal.signal(signal.SIGINT, signal.SIG_IGN)
    r, w = os.pipe()
    pid = os.fork()
    if pid == 0:
        code = 0
        try:
            os.close(r)
            signal.signal(signal.SIGINT, signal.default_int_handler)
            try:
                res = _run_case_here(item)
            except BaseException as e:  # noqa: BLE001
                import traceback

                res = {"__exc__": f"{type(e).__name__}: {e}\n{traceback.format_exc()[-1500:]}"}
            data = json.dumps(res, default=repr).encode()
            while data:
                n = os.write(w, data)
                data = data[n:]
        except BaseException:  # noqa: BLE001
            code = 1
        finally:
            os._exit(code)
    os.close(w)
    chunks = []
    while True:
        b = os.read(r, 1 << 16)
        if not b:
            break
        chunks.append(b)
    os.close(r)
    os.waitpid(pid, 0)
    if not chunks:
        return {"__exc__": "case child died without a result"}
    return json.loads(b"".join(chunks))


def _run_case_here(item):
    """item = {src, end_object, env, reps}"""
    S = session()
    XSH = S["XSH"]
    _S["base_fds"] = set(_fds())
    gc.collect()
    swap = dict(item.get("env") or {})
    reps = item.get("reps", 1)
    out = {"reps": []}
    with XSH.env.swap(**swap):
        gc.collect()
        A = _snapshot()
        chain0 = _chain_depth()
        _Trace.events, _Trace.closes, _Trace.specs, _Trace.wait_timeouts, _Trace.waited, _Trace.on = [], [], [], [], [], True
        t0 = time.time()
        exc = None
        for rep in range(reps):
            if rep == 1:
                _Trace.on = False  # only the first run is traced
            exc = _exec(item["src"])
            lc = XSH.lastcmd
            if item.get("end_object") and lc is not None:
                try:
                    lc.end()
                except BaseException as e:  # noqa: BLE001
                    exc = exc or e
            if rep == 0:
                out["wall"] = round(time.time() - t0, 3)
                out["raised"] = None if exc is None else [type(exc).__name__, str(exc)[:200]]
                out["has_pipeline"] = lc is not None
                out["start_failed"] = lc is not None and lc.proc is None
                out["started"] = None if lc is None else len(lc.procs)
                out["procs"] = None if lc is None else [type(p).__name__ for p in lc.procs]
                # was the body of end() left before the last proc was waited for?
                out["end_aborted"] = bool(lc is not None and lc.proc is not None and lc.ended and id(lc.proc) not in _Trace.waited)
                # (1) while the exception is still referenced
                out["held"] = [_still_open(e) for e in _Trace.events]
                out["trace"] = [{k: v for k, v in e.items() if k in ("k", "path", "pty")} for e in _Trace.events]
            if rep in (0, reps - 1) or rep == 1:
                lc = None
                exc = None  # release the exception (and the traceback's frames)
                gc.collect()
                deadline = time.time() + 2
                waited = 0.0
                while _threads() and time.time() < deadline:
                    time.sleep(0.01)
                    waited += 0.01
                gc.collect()
                B = _snapshot()
                rec = {"rep": rep, "delta": _delta(A, B), "chain": _chain_depth() - chain0, "thread_wait": round(waited, 2),
                       "nfds": len(B["fds"]), "nchildren": len(B["children"]), "nthreads": len(B["threads"]),
                       "active": len(__import__("subprocess")._active), "jobs": len(__import__("xonsh.procs.jobs", fromlist=["x"]).get_jobs())}
                if rep == 0:
                    rec["final"] = [_still_open(e) for e in _Trace.events]
                    seen = set()
                    rec["closed_twice"] = [fd for key in _Trace.closes for fd in [key[1]] if key in seen or seen.add(key)]
                    audit = []
                    for ref in _Trace.specs:
                        s = ref()
                        if s is None:
                            continue
                        for nm in ("_stdin", "_stdout", "_stderr", "captured_stdout", "captured_stderr"):
                            v = getattr(s, nm, None)
                            if hasattr(v, "closed") and not isinstance(v, int) and not v.closed and v not in (sys.stdin, sys.stdout, sys.stderr):
                                audit.append([s.pipeline_index, nm])
                        for ch in list(getattr(s, "pipe_channels", [])):
                            if ch._read_fd is not None or ch._write_fd is not None:
                                audit.append([s.pipeline_index, "channel"])
                    rec["audit"] = audit
                    rec["wait_timeouts"] = list(_Trace.wait_timeouts)
                out["reps"].append(rec)
            else:
                exc = None
        out["sigint"] = _sigint_effect()
        out["chain_after_sigint"] = _chain_depth() - chain0
    _Trace.on = False
    _Trace.events, _Trace.specs = [], []
    return out


# ======================================================================================= parent side: generation
def _sh(beh):
    rd = {"none": "", "line": "read x; ", "all": "cat > /dev/null; "}[beh["read"]]
    wr = {"none": "", "small": "echo hi; ", "big": "seq 1 20000; ", "endless": "yes; ", "bad": "echo ok; printf '\\\\377\\\\376\\\\n'; "}[beh["write"]]
    er = "echo err >&2; " if beh.get("err") else ""
    return f'sh -c "{rd}{er}{wr}exit {beh["rc"]}"'


def render_stage(st):
    b = st["beh"]
    if st["kind"] == "ext":
        if not st["buildOk"]:
            cmd = "./notexec"
        elif not st["found"]:
            cmd = "xv-no-such-command arg"
        else:
            cmd = _sh(b)
    elif st["kind"] == "thr":
        cmd = f't {b["read"]} {b["write"] if b["write"] != "endless" else "big"} {b["rc"]} {1 if b.get("raises") else 0} {1 if b.get("err") else 0}'
    else:
        cmd = f'u {b["rc"]}'
    for r in st["redirs"]:
        cmd += " " + (r["op"] + (" " + r["path"] if "path" in r else ""))
    return cmd


def render(case):
    body = " | ".join(render_stage(s) for s in case["stages"])
    if case["background"]:
        body += " &"
    cap = case["capture"]
    if cap == "bare":
        return body
    if cap == "hidden":
        return f"![{body}]"
    if cap == "uncaptured":
        return f"$[{body}]"
    if cap == "stdout":
        return f"__xv = $({body})"
    return f"__xv = !({body})"


FILE_OPS = {
    "inp": ["<"],
    "out": [">", ">>", "o>", "out>", "1>"],
    "err": ["e>", "err>", "2>", "e>>"],
    "all": ["a>", "all>", "&>", "a>>"],
}
FLAG_OPS = {"errToOut": ["e>o", "2>&1", "err>out"], "outToErr": ["o>e", "1>&2", "out>err"], "errToPipe": ["e>p", "err>p", "2>p"], "allToPipe": ["a>p", "all>p"]}


def gen_redir(rng, tgt, openable, k, j):
    if tgt in FLAG_OPS:
        return {"form": tgt, "op": rng.choice(FLAG_OPS[tgt])}
    op = rng.choice(FILE_OPS[tgt])
    if tgt == "inp":
        path = "in.txt" if openable else "missing.txt"
    else:
        path = f"o{k}_{j}.txt" if openable else f"nodir/o{k}_{j}.txt"
    return {"form": "file", "tgt": tgt, "openable": openable, "op": op, "path": path}


MODES = ["success", "nonzero", "not-found", "alias-raises", "early-exit", "unopenable", "conflict", "perm-denied", "pipe-conflict", "sentinel", "unthreadable", "undecodable"]


def gen_case(rng, mode=None, allow_bg=True):
    mode = mode or rng.choice(MODES + ["success", "not-found", "early-exit"])
    n = rng.choice([1, 2, 2, 3, 3, 4])
    if mode in ("early-exit", "pipe-conflict", "unthreadable") and n < 2:
        n = 2
    stages = []
    for k in range(n):
        kind = rng.choice(["ext", "ext", "ext", "thr", "thr"])
        beh = {"read": "none" if k == 0 else rng.choice(["all", "all", "all", "line", "none"]),
               "write": rng.choice(["small", "small", "none", "big"]), "rc": 0, "raises": False, "err": rng.random() < 0.2}
        if k == 0 and rng.random() < 0.2:
            beh["read"] = "all"
        stages.append({"kind": kind, "beh": beh, "redirs": [], "found": True, "buildOk": True})
    pos = rng.randrange(n)
    st = stages[pos]
    if mode == "nonzero":
        st["beh"]["rc"] = rng.choice([1, 3])
        if rng.random() < 0.4:
            stages[-1]["beh"]["rc"] = 2
    elif mode == "not-found":
        st["kind"], st["found"] = "ext", False
        if pos > 0 and rng.random() < 0.4:
            stages[pos - 1]["beh"]["write"] = rng.choice(["big", "endless"]) if stages[pos - 1]["kind"] == "ext" else "big"
    elif mode == "alias-raises":
        st["kind"] = "thr"
        st["beh"]["raises"] = True
    elif mode == "early-exit":
        pos = rng.randrange(1, n)
        stages[pos]["beh"]["read"] = rng.choice(["none", "line"])
        up = stages[pos - 1]
        up["beh"]["write"] = rng.choice(["big", "endless"]) if up["kind"] == "ext" else "big"
    elif mode == "unopenable":
        tgt = rng.choice(["inp", "out", "err", "all"])
        if (tgt == "inp" and pos > 0) or (tgt in ("out", "all") and pos < n - 1):
            tgt = "err"
        # an earlier redirect of the same stage may already have opened its file
        if rng.random() < 0.6:
            other = rng.choice([t for t in ("inp", "out", "err") if t != tgt and not (t == "inp" and pos > 0) and not (t == "out" and pos < n - 1)] or ["err"])
            if other != tgt:
                st["redirs"].append(gen_redir(rng, other, True, pos, len(st["redirs"])))
        st["redirs"].append(gen_redir(rng, tgt, False, pos, len(st["redirs"])))
    elif mode == "conflict":
        tgt = rng.choice(["inp", "out", "err", "all"])
        if (tgt == "inp" and pos > 0) or (tgt in ("out", "all") and pos < n - 1):
            tgt = "err"
        first = tgt if tgt != "all" else rng.choice(["out", "err", "all"])
        st["redirs"].append(gen_redir(rng, rng.choice([first, "errToOut"]) if first == "err" else first, True, pos, 0))
        st["redirs"].append(gen_redir(rng, tgt, True, pos, 1))
    elif mode == "perm-denied":
        st["kind"], st["buildOk"] = "ext", False
        if rng.random() < 0.7:
            tgt = "err" if rng.random() < 0.5 else ("inp" if pos == 0 else ("out" if pos == n - 1 else "err"))
            st["redirs"].append(gen_redir(rng, tgt, True, pos, 0))
    elif mode == "pipe-conflict":
        if rng.random() < 0.5:
            pos = rng.randrange(0, n - 1)
            stages[pos]["redirs"].append(gen_redir(rng, rng.choice(["out", "all", "outToErr"]), True, pos, 0))
        else:
            pos = rng.randrange(1, n)
            stages[pos]["redirs"].append(gen_redir(rng, "inp", True, pos, 0))
    elif mode == "sentinel":
        # e>p / a>p on the last stage (no following pipe) is an error; on an earlier stage it is fine
        stages[-1 if rng.random() < 0.6 else pos]["redirs"].append(gen_redir(rng, rng.choice(["errToPipe", "allToPipe"]), True, pos, 0))
    elif mode == "unthreadable":
        st["kind"] = "unthr"
    elif mode == "undecodable":
        stages[-1]["beh"]["write"] = "bad"
    # benign extra redirects on stages that have none (they must not collide with the pipes)
    for k, s in enumerate(stages):
        if not s["redirs"] and rng.random() < 0.3:
            choices = ["err", "errToOut"] + (["inp"] if k == 0 else []) + (["out", "all", "outToErr"] if k == n - 1 else [])
            if k < n - 1:
                choices += ["errToPipe", "allToPipe"]
            s["redirs"].append(gen_redir(rng, rng.choice(choices), True, k, 0))
    if n == 1 and rng.random() < 0.15 and mode in ("success", "nonzero"):
        stages[0]["kind"] = "unthr"
    # an endless producer must sit right before an early-exit stage or a stage that cannot start
    for k, s in enumerate(stages):
        if s["beh"]["write"] == "endless":
            nxt = stages[k + 1] if k + 1 < n else None
            if nxt is None or not ((nxt["beh"]["read"] in ("none", "line")) or not nxt["found"]):
                s["beh"]["write"] = "big"
    capture = rng.choice(["bare", "bare", "hidden", "uncaptured", "stdout", "stdout", "object", "object"])
    if mode == "undecodable":
        capture = rng.choice(["object", "object", "hidden", "stdout", "bare"])
    background = allow_bg and rng.random() < 0.12 and capture in ("bare", "hidden", "uncaptured")
    if background:
        for s in stages:  # keep background jobs short-lived
            if s["beh"]["write"] == "endless":
                s["beh"]["write"] = "small"
    case = {"mode": mode, "stages": stages, "capture": capture, "background": background, "capture_always": rng.random() < 0.15}
    if mode == "undecodable":
        case["strict"] = True
    case["src"] = render(case)
    return case


def model_cmd(case, aborts=False):
    stages = []
    for s in case["stages"]:
        rs = []
        for r in s["redirs"]:
            if r["form"] == "file":
                rs.append([Sym("file"), Sym(r["tgt"]), bool(r["openable"])])
            else:
                rs.append(Sym(r["form"]))
        stages.append([Sym(s["kind"]), rs, bool(s["buildOk"]), bool(s["found"])])
    cap = {"bare": "hidden", "hidden": "hidden", "uncaptured": "uncaptured", "stdout": "stdout", "object": "object"}[case["capture"]]
    return [stages, Sym(cap), bool(case["background"]), True, True, bool(case.get("capture_always")), bool(aborts)]


def vflags(variant):
    return [bool(variant[0]), bool(variant[1]), bool(variant[2])]


def model(ctx, case, variant, aborts=False):
    m = ctx.driver.call("c09.run", vflags(variant), model_cmd(case, aborts))

    def res(l):
        return sorted((r[0], str(r[1][0]), *r[1][1:]) for r in l)

    def h(x):
        return "orig" if str(x[0]) == "prior" else ["stage", x[1]]

    return {
        "why": str(m[0]),
        "start_failed": bool(m[1]),
        "started": m[2],
        "held": res(m[3]),
        "final": res(m[4]),
        "handlers": [h(x) for x in m[5][:4]],
        "saved": m[5][4],
        "opens": [(r[0], str(r[1][0]), *r[1][1:]) for r in m[6]],
        # the write ends a proc thread closes by itself if and when it ends: optional in every comparison
        "self_closes": set(res(m[7])),
    }


# ======================================================================================= judging
def real_leak(trace, still, model_opens):
    """map the real acquisitions still open onto the ledger's resource names (by order of acquisition)"""
    fdlike = [o for o in model_opens if o[1] in ("file", "pipeR", "capR", "wrapW", "wrapR")]
    out = []
    ok = len(fdlike) == len(trace)
    for o, e, st in zip(fdlike, trace, still):
        kind = {"file": "file", "pipeR": "pipe", "capR": "pipe", "wrapW": "wrap", "wrapR": "wrap"}[o[1]]
        if kind != e["k"]:
            ok = False
            break
        if o[1] == "file":
            if "f" in st:
                out.append(o)
        elif o[1] in ("pipeR", "capR"):
            w = "pipeW" if o[1] == "pipeR" else "capW"
            if "r" in st:
                out.append(o)
            if "w" in st:
                out.append((o[0], w, *o[2:]))
        elif "x" in st:
            out.append(o)
    return ok, sorted(out)


def file_paths_match(case, trace, model_opens, root_hint=None):
    """the j-th redirect file of stage k in the ledger must be the path the command names"""
    fdlike = [o for o in model_opens if o[1] in ("file", "pipeR", "capR", "wrapW", "wrapR")]
    for o, e in zip(fdlike, trace):
        if o[1] == "file":
            want = case["stages"][o[0]]["redirs"][o[2]]["path"]
            if not e.get("path", "").endswith("/" + want):
                return False
    return True


def judge(ctx, stream, case, obs, variant):
    info = {"stream": stream, "source": case["src"], "mode": case["mode"], "capture": case["capture"], "background": case["background"],
            "capture_always": case.get("capture_always", False), "case": case}
    if obs == common.HANG:
        ctx.count("hang")
        key = K_HANG if hang_is_known(case) else None
        ctx.spec_failure(info, {"hang": True}, "the command did not return (the session is wedged)", key)
        return
    if isinstance(obs, dict) and "__exc__" in obs:
        raise common.InfraError(f"C09 worker failed on {case['src']!r}: {obs['__exc__']}")
    aborts = bool(obs.get("end_aborted"))
    m = model(ctx, case, variant, aborts=aborts)
    r0 = obs["reps"][0]
    d = r0["delta"]
    ctx.count(f"why/{m['why']}")
    if aborts:
        ctx.count("end-left-early/" + (obs["raised"][0] if obs["raised"] else "returned"))
    if m["start_failed"]:
        ctx.count(f"start-failure/after-{min(m['started'], 3)}-started")
    # ---- correspondence: the ledger's prediction against the real run
    dis = []
    prep_raised = not obs["has_pipeline"] and obs["raised"] is not None and obs["raised"][0] == "XonshError"
    if (m["why"] != "ok") != prep_raised:
        dis.append(["prepare-raised", prep_raised, m["why"]])
    elif m["why"] == "ok":
        if bool(obs["start_failed"]) != m["start_failed"] or (obs["started"] or 0) != m["started"]:
            dis.append(["started", [obs["start_failed"], obs["started"]], [m["start_failed"], m["started"]]])
    ok1, held = real_leak(obs["trace"], obs["held"], m["opens"])
    ok2, final = real_leak(obs["trace"], r0["final"], m["opens"])
    if not ok1 or not file_paths_match(case, obs["trace"], m["opens"]):
        dis.append(["open-events", [[e["k"], e.get("path", "")[-12:]] for e in obs["trace"]], [list(o) for o in m["opens"] if o[1] not in ("child", "thread", "pipeW", "capW")]])
    else:
        ctx.count("open-event-lists-matched")
        ctx.count("open-events", len(obs["trace"]))
        m_held = [x for x in m["held"] if x[1] not in ("child", "thread")]
        m_final = [x for x in m["final"] if x[1] not in ("child", "thread")]
        opt = m["self_closes"]

        def same(real, pred):
            return set(real) <= set(pred) and set(pred) - set(real) <= opt

        if not same(held, m_held):
            dis.append(["open-while-exception-held", [list(x) for x in held], [list(x) for x in m_held]])
        if not same(final, m_final):
            dis.append(["open-after", [list(x) for x in final], [list(x) for x in m_final]])
    n_child = len([x for x in m["final"] if x[1] == "child"])
    n_thread = len([x for x in m["final"] if x[1] == "thread"])
    # a child whose `wait(timeout=3)` expired in _close_prev_procs (it was still blocked then) is "waited for" in the ledger
    timed_out = {str(p) for p in r0.get("wait_timeouts", [])}
    unexplained = {pid: st for pid, st in d.get("children", {}).items() if str(pid) not in timed_out}
    ended_ = case["capture"] == "object" or not case["background"]
    if len(unexplained) != n_child and ended_:
        dis.append(["children", d.get("children"), n_child])
    real_h = list(d.get("handlers", dict.fromkeys(SIGS, "orig")).values())
    real_hn = ["orig" if x == "orig" else (["stage", x[1]] if isinstance(x, list) else x) for x in real_h]
    if real_hn != m["handlers"]:
        dis.append(["handlers", real_h, m["handlers"]])
    # threads: a leaked ledger thread is a proc thread that nobody joined; it may have ended by itself, so only "more than predicted" counts
    # ... and a thread stage in front of a stage that is never torn down may be stuck behind it even though it was joined (with a
    # timeout): its consumer still holds the read end of their pipe
    extra_threads = [t for t in d.get("threads", [])]
    leaked_stages = [x[0] for x in m["final"] if x[1] in ("child", "thread")]
    may_live = n_thread if not leaked_stages else len([s for s in case["stages"][: max(leaked_stages) + 1] if s["kind"] == "thr"])
    if not ended_:
        # a pipeline nobody ends: its proc threads (and a PopenThread's reader threads) live as long as the job does
        if extra_threads and not n_thread:
            dis.append(["threads", extra_threads, n_thread])
    elif len(extra_threads) > max(n_thread, may_live) or any(t not in ("ProcProxyThread",) for t in extra_threads):
        dis.append(["threads", extra_threads, n_thread])
    for x in dis:
        ctx.disagree(stream, info, {x[0]: x[1]}, {x[0]: x[2]})
    faithful = not dis
    # ---- the property itself, on the observations
    bg = case["background"]
    ended = case["capture"] == "object" or not bg
    fails = []
    fd_part = {k: d[k] for k in ("fds_added", "fds_removed") if k in d}
    if fd_part or r0["audit"]:
        fails.append(("descriptors", {**fd_part, "unclosed_in_specs": r0["audit"]}, "the shell holds additional open descriptors (or unclosed stream objects) after the command"))
    if d.get("children") and not bg:
        fails.append(("children", d["children"], "un-reaped or still-running foreground children after the command"))
    if d.get("threads"):
        fails.append(("threads", d["threads"], "helper threads still running 2 s after the command"))
    if "handlers" in d:
        fails.append(("handlers", d["handlers"], "signal handlers differ from those before the command"))
    for k in ("cwd", "std", "env", "osenv"):
        if k in d:
            fails.append((k, d[k], f"{k} changed"))
    if obs["sigint"] != "KeyboardInterrupt":
        fails.append(("sigint", obs["sigint"], "a SIGINT sent to the shell after the command does not raise KeyboardInterrupt"))
    if r0["closed_twice"]:
        fails.append(("double-close", r0["closed_twice"], "a PipeChannel closed the same descriptor number twice (the number may belong to somebody else by then)"))
    if held and not final:
        fails.append(("held", [list(x) for x in held], "descriptors stay open for as long as the raised exception is referenced (as sys.last_exc does at a prompt)"))
    if not fails:
        return m, faithful
    # ---- which of them are the known findings?  Only what the faithful ledger predicts, attributed to the mechanism that
    # produces it IN THE LEDGER (asked counterfactually: does the repaired ledger still show it?)
    m_td = model(ctx, case, (True, variant[1], variant[2]), aborts=aborts)  # every started stage torn down on a start failure
    res_leak = [x for x in m["final"]]
    leak_key = None
    if res_leak:
        if not ended:
            leak_key = K_BG
        elif m["start_failed"] and m["started"] >= 1 and not variant[0] and not m_td["final"]:
            leak_key = K_LATE
        elif aborts and all(x[1] == "child" and x[0] == m["started"] - 1 for x in res_leak):
            leak_key = K_ABORT
    h_key = None
    if m["handlers"] != ["orig"] * 4:
        hi = m["handlers"][0]
        last_started = m["started"] - 1
        if not ended:
            h_key = K_BG
        elif isinstance(hi, list) and hi[1] == last_started and aborts and not m["start_failed"]:
            h_key = K_ABORT
        elif isinstance(hi, list) and case["stages"][hi[1]]["kind"] == "thr" and (hi[1] < last_started or m["start_failed"]) and not variant[1]:
            h_key = K_SIGINT
    # a proc thread of a stage that is never torn down may be stuck for good (writing into a pipe nobody reads): while it lives,
    # sys.stdout stays redirected to the dispatcher and its SIGINT handler swallows the signal - consequences of the same leak
    stuck = "ProcProxyThread" in d.get("threads", []) and bool(leaked_stages)
    n_thr = len([s for s in case["stages"] if s["kind"] == "thr"])
    std_race = (
        "std" in d and n_thr >= 2 and set(d["std"]) <= {"sys.stdout", "sys.stderr"}
        and all(v == ["FileThreadDispatcher", "default is the original object"] for v in d["std"].values())
    )
    for what, observed, why in fails:
        key = None
        if faithful:
            if what == "children" and not unexplained and ended and not res_leak:
                key = K_WAIT
            elif what in ("descriptors", "children", "threads"):
                key = leak_key
            elif what == "handlers":
                key = h_key
            elif what == "std":
                key = leak_key if stuck else (K_STD if std_race else None)
            elif what == "sigint":
                # a stale proc handler decides by the state of ITS proc whether the signal gets through
                key = leak_key if stuck else h_key
            elif what == "held":
                if m["why"] in ("build", "wire") and not variant[2]:
                    key = K_HELD
        ctx.count(f"property-failure/{what}/{key or 'NEW'}")
        ctx.spec_failure(info | {"what": what}, observed, why, key)
    return m, faithful


def hang_is_known(case):
    """the intermittent wedge seen on the unchanged tree: >= 3 stages, callable aliases reading their stdin to EOF"""
    thr = [s for s in case["stages"] if s["kind"] == "thr"]
    return len(case["stages"]) >= 3 and len(thr) >= 2


def run_batch(items, timeout=40):
    common.scratch_root()
    return common.map_in_child(run_case, items, per_item_timeout=timeout, label="c09")


def to_item(case, reps=1):
    env = {}
    if case.get("capture_always"):
        env["XONSH_CAPTURE_ALWAYS"] = True
    if case.get("strict"):
        env["XONSH_ENCODING_ERRORS"] = "strict"
    return {"src": case["src"], "end_object": case["capture"] == "object", "env": env, "reps": reps}


# ======================================================================================= streams
def stream_shapes(ctx, n, variant, name="pipelines-x-failure-modes"):
    ctx.stream_rule(
        name,
        "random pipelines of 1-4 stages (external `sh -c` processes, callable aliases on threads, unthreadable aliases) x capture "
        "form (bare, ![], $[], $(), !(), $XONSH_CAPTURE_ALWAYS) x background x redirects (<, >, >>, e>, a>, e>o, o>e, e>p, a>p) x "
        "failure mode (success, non-zero exit, command not found at each position incl. behind a still-writing producer, alias "
        "raises, early-exit consumer behind a big / endless producer, unopenable redirect after an opened one, conflicting "
        "redirects, redirect colliding with a pipe, permission denied after the redirects, misplaced e>p, unthreadable alias in a "
        "pipeline); each runs through the real Execer in a forked worker; before/after: /proc/self/fd with link targets, children "
        "and zombies, threads, cwd, sys.std*, handlers of INT/TSTP/QUIT/WINCH, environment, a self-sent SIGINT; every SubprocSpec "
        "built is audited for unclosed streams / channels; the real os.pipe / openpty / open calls are matched one by one with the "
        "ledger's open events and what is still open (while the exception is held, and after) with the ledger's prediction; "
        "non-trivial = a failure mode other than success",
    )
    CH = 60
    for base in range(0, n, CH):
        if ctx.enough_failures():
            break
        cases = [gen_case(ctx.rng) for _ in range(base, min(n, base + CH))]
        results = run_batch([to_item(c) for c in cases])
        for c, obs in zip(cases, results):
            ctx.case(name, c["src"] + repr(c.get("capture_always")), c["mode"] != "success", {"source": c["src"], "mode": c["mode"]})
            ctx.count(f"mode/{c['mode']}")
            ctx.count(f"capture/{c['capture']}" + ("+bg" if c["background"] else ""))
            ctx.count(f"stages/{len(c['stages'])}")
            for s in c["stages"]:
                ctx.count(f"kind/{s['kind']}")
            judge(ctx, name, c, obs, variant)


def stream_repetition(ctx, n, reps, variant, name="repetition"):
    ctx.stream_rule(
        name,
        f"a sample of the generated commands (every failure mode) is repeated {reps} times in one session; descriptors, children, "
        "threads, the depth of the SIGINT handler chain, subprocess._active and the job table are sampled after the 1st, the 2nd and "
        "the last repetition (exception released, gc run): any growth between the 2nd and the last sample is a violation; the "
        "ledger's `repeat` gives the predicted growth; a self-sent SIGINT must still raise KeyboardInterrupt afterwards",
    )
    cases = []
    for k in range(n):
        c = gen_case(ctx.rng, mode=MODES[k % len(MODES)], allow_bg=False)
        # keep repeated commands cheap
        for s in c["stages"]:
            if s["beh"]["write"] == "endless" and all(x["found"] for x in c["stages"]):
                pass
        cases.append(c)
    results = run_batch([to_item(c, reps) for c in cases], timeout=40 + reps)
    for c, obs in zip(cases, results):
        ctx.case(name, c["src"] + repr(c.get("capture_always")), True, {"source": c["src"], "mode": c["mode"], "reps": reps})
        info = {"stream": name, "source": c["src"], "mode": c["mode"], "reps": reps, "case": c}
        if obs == common.HANG:
            ctx.spec_failure(info, {"hang": True}, "repeating the command wedged the session", K_HANG if hang_is_known(c) else None)
            continue
        if isinstance(obs, dict) and "__exc__" in obs:
            raise common.InfraError(f"C09 worker failed on {c['src']!r}: {obs['__exc__']}")
        m1 = model(ctx, c, variant)
        grow_m = ctx.driver.call("c09.repeat", [bool(variant[0]), bool(variant[1])], reps, model_cmd(c))
        second, last = obs["reps"][1], obs["reps"][-1]
        growth = {k: last[k] - second[k] for k in ("nfds", "nchildren", "nthreads", "chain", "active", "jobs")}
        ctx.count("repetitions", reps)
        bad = {k: v for k, v in growth.items() if v > 0}
        # what the ledger says: per-repetition leak of descriptors / children, and saved handlers that pile up
        per_rep_fd = len([x for x in m1["final"] if x[1] in ("file", "pipeR", "pipeW", "capR", "capW")])
        per_rep_child = len([x for x in m1["final"] if x[1] == "child"])
        pred_chain = grow_m[1][4]
        if (growth["chain"] > 0) != (pred_chain > reps - 1 and pred_chain >= reps) and False:
            pass
        if bad:
            key = None
            late = m1["start_failed"] and m1["started"] >= 1 and not variant[0]
            if set(bad) <= {"chain"} and pred_chain >= reps and not variant[1]:
                key = K_SIGINT
            elif late and set(bad) <= {"nfds", "nchildren", "active", "chain"} and (per_rep_fd or per_rep_child):
                key = K_LATE
            ctx.count(f"growth/{key or 'NEW'}")
            ctx.spec_failure(info, {"growth_between_rep_2_and_last": growth, "ledger_per_repetition": {"descriptors": per_rep_fd, "children": per_rep_child, "saved_handlers_after_all": pred_chain}},
                             "resources grow with the number of repetitions", key)
        if obs["sigint"] != "KeyboardInterrupt":
            key = K_SIGINT if (pred_chain >= reps and not variant[1]) else None
            ctx.spec_failure(info, {"sigint": obs["sigint"], "handler_chain_depth": last["chain"]}, "after the repetitions a SIGINT does not raise KeyboardInterrupt", key)


# ======================================================================================= known findings
def replay_known(ctx):
    """-> the variant (teardown, lifo) that matches the implementation"""
    teardown = lifo = True
    for f in ctx.known:
        w = f["witness"]
        if f["key"] == K_HANG:
            continue
        case = w["case"]
        case["src"] = render(case)
        obs = run_batch([to_item(case, w.get("reps", 1))])[0]
        if obs == common.HANG or (isinstance(obs, dict) and "__exc__" in obs):
            raise common.InfraError(f"C09 known-finding witness did not run: {obs}")
        r0 = obs["reps"][0]
        d = r0["delta"]
        if f["key"] == K_LATE:
            fails = bool(d.get("fds_added")) or bool(d.get("children"))
            teardown = teardown and not fails
        elif f["key"] == K_SIGINT:
            fails = "handlers" in d or obs["reps"][-1]["chain"] > 0
            lifo = lifo and not fails
        elif f["key"] == K_BG:
            fails = bool(d.get("fds_added"))
        elif f["key"] == K_HELD:
            fails = any(obs["held"]) and not any(r0["final"])
        else:
            fails = bool(d)
        ctx.replayed(f["key"], fails, {"delta": d, "held": obs["held"], "sigint": obs["sigint"]})
        if fails and f.get("status") == "open":
            ctx.spec_failure({"stream": "known-witness", "source": case["src"]}, {"delta": d, "held": obs["held"]}, f["what"], f["key"])
    return (teardown, lifo)


def run(ctx):
    ctx.assumptions += [
        "commands are `sh -c` children / callable aliases whose behaviour (how much they read, how much they write, exit code, raising) is generated; every started child exits once its input ends or its output is closed",
        "$THREAD_SUBPROCS is True, $XONSH_STORE_STDIN False, $XONSH_INTERACTIVE False (the interactive stream sets it True on a pty)",
        "the observation point is the moment the command has returned to the caller: exception object released, gc.collect() run; `!()` objects are ended by the harness (their value is demanded)",
    ]
    ctx.explanation = (
        "Model lean/XonshVerif/Model/FdLedger.lean, theorems Props/C09.lean; tie = generated pipelines x failure modes through the "
        "real Execer in a forked worker, the session's state sampled before / after and compared with the ledger's prediction."
    )
    variant = replay_known(ctx)
    ctx.extra["model_variant"] = {"teardown": variant[0], "lifo": variant[1]}
    stream_shapes(ctx, ctx.n(420, 6000), variant)
    stream_repetition(ctx, ctx.n(11, 44), ctx.n(40, 300), variant)


def search(ctx, reason):
    ctx.extra["search_reason"] = reason
    variant = (ctx.extra.get("model_variant", {}).get("teardown", False), ctx.extra.get("model_variant", {}).get("lifo", False))
    stream_shapes(ctx, ctx.n(1200, 6000), variant, name="search:pipelines-x-failure-modes")


def replay(ctx, path):
    r = json.loads(open(path).read())
    c = r["case"]
    case = c.get("case")
    if not case:
        print("re-run ./check C09 with the same seed for this stream")
        return common.EXIT_INFRA
    case["src"] = render(case)
    obs = run_batch([to_item(case, c.get("reps", 1))])[0]
    print("source:", case["src"])
    if obs == common.HANG:
        print(f"the command did not return\nVIOLATION property={ID} replay={path}")
        return common.EXIT_VIOLATION
    if isinstance(obs, dict) and "__exc__" in obs:
        print("worker error:", obs["__exc__"])
        return common.EXIT_INFRA
    d = obs["reps"][-1]["delta"]
    print("state after vs before:", json.dumps(d, default=repr)[:1500])
    print("while the exception was held:", obs["held"], " SIGINT ->", obs["sigint"])
    bad = bool(d) or obs["sigint"] != "KeyboardInterrupt" or any(obs["held"])
    print(f"VIOLATION property={ID} replay={path}" if bad else "property holds on this command")
    return common.EXIT_VIOLATION if bad else common.EXIT_OK
