"""C09 — Running a command leaves the shell session as it found it."""

from __future__ import annotations

import gc
import json
import os
import signal
import sys
import threading
import time
import weakref

from .. import common
from ..codec import Sym

ID = "C09"
LEVEL = "proof"
PROPS_MODULES = ["XonshVerif.Props.C09"]
TECHNIQUE = (
    "Lean 4 proof (resource ledger: every open / close / start / wait / handler swap performed by cmds_to_specs, "
    "CommandPipeline.__init__ / end and the proc classes, as an event program over named resources; ownership invariant by "
    "induction on the stage list and the redirect lists; well-nested handler swaps) + differential correspondence: generated "
    "pipelines x failure modes run through the real Execer in a forked worker (plain, and as an interactive shell on a pty), "
    "/proc/self/fd, children, threads, handlers, cwd, std streams, environment, terminal owner / attributes and a self-sent SIGINT "
    "compared before/after and with the ledger's prediction"
)
LEVEL_TEXT = (
    "proof (partial): the ledger model (lean/XonshVerif/Model/FdLedger.lean) is the list of acquire / release events the code "
    "performs for a command: redirect files and the stream setters, the `|` PipeChannels, capture channels and their wrappers, "
    "started children and helper threads, swapped signal handlers; the except-branch of cmds_to_specs, the start-failure branch "
    "of CommandPipeline.__init__, _close_prev_procs / _close_proc, the waits and the handler restores. HEADLINE, for the code as it "
    "is now (all three repairs in: every started stage is torn down after a start failure - /repo 84fd7b3; every proc gives its "
    "handlers back, last started first, in the finally of _end - 59f5309; a failed build closes its own spec and the `|` loop its "
    "unattached pipe - 7dff01d; the harness replays the fixed findings' witnesses on every run and picks this variant only if they "
    "pass), proved for ALL pipelines (any number of stages of any kind, any redirect lists incl. unopenable / conflicting / "
    "pipe-colliding ones, any capture form, whichever stage fails in whichever phase) and all prior session states: C09_balanced "
    "(the ledger after the command = the ledger before, on every exit path that ends the pipeline; C09_ledger: when the body of _end "
    "is left early at most the un-waited child of a plain-Popen last stage remains), C09_handlers_restored (saved = restored on "
    "every path incl. start failures and an _end left early), C09_close_idem / C09_close_comm / C09_extra_closes (closing is "
    "idempotent; additional closes anywhere never change a balanced outcome, so the timing-dependent closes of the real code may be "
    "left out), C09_held_bounded, C09_repeat / C09_repeat_handlers (any number of repetitions leaves ledger and signal state "
    "unchanged). Still outside the headline, with witnesses: C09_cex_background (nobody ends a `&` pipeline: open finding), "
    "C09_cex_abort. PINNED SNAPSHOT (the code before those commits; kept as the record of what the proof forced and so that a "
    "recurrence is recognised): C09_balanced_partial + C09_leak_exact (that code balanced IF AND ONLY IF no stage other than the "
    "first failed to start), C09_handlers_restored_partial (guard: no started stage but the last swaps a handler), "
    "C09_cex_late_start_failure / _held / _sigint / _abort_handlers / _sigint_chain, C09_repeat_grows (every repetition of a leaking "
    "command adds its residue again). Tie: the generated pipelines on the real code (plain, and as an interactive shell on a pty), "
    "every acquisition matched with the ledger's open events, what is left compared with the ledger's residue; repetition stream for "
    "the cumulative clause; PipeChannel close sequences from one and two threads against stepRes."
)
LEVEL_NOTE = (
    "Trusted: Lean kernel + standard axioms; the harness (forked worker per case, /proc sampling, monkeypatched os.pipe / os.openpty / "
    "os.close / open / Popen.wait to record the real events, pty set-up); the OS. Observed by the tie only, not proved: that a "
    "waited-for child has exited and a joined thread has ended (the ledger counts a stage as given back once wait / join was "
    "CALLED), terminal ownership and attributes, environment and cwd equality, the effect of SIGINT. Helper threads that end by "
    "themselves within 2 s of the command (PrevProcCloser polls every 0.1 s) are tolerated. What the garbage collector gives back "
    "once nothing references an old pipeline is outside the ledger (the repetition stream observes it). An _end left early with a "
    "plain-Popen last stage (its child is not waited for: C09_cex_abort) is not reachable by the generator (an uncaptured command's "
    "output is never decoded). Ctrl-C DURING a command, "
    "job control (fg / bg / Ctrl-Z), $XONSH_STORE_STDIN and $THREAD_SUBPROCS off are outside the generated space."
)

K_LATE = "late-start-failure-leaves-previous-stage"
K_SIGINT = "alias-before-last-stage-keeps-sigint-handler"
K_BG = "background-pipeline-keeps-descriptors"
K_HELD = "failed-build-spec-closed-only-by-refcount"
K_HANG = "callable-alias-pipeline-intermittent-hang"
K_WAIT = "blocked-producer-is-waited-for-before-its-consumer-is-torn-down"
K_ABORT = "end-left-early-keeps-the-last-handlers"
K_VSUSP = "captured-command-leaves-the-suspend-character-disabled"
K_STDERR_CLOSED = "o2e-capture-start-failure-closes-session-stderr"
K_EBADF = "alias-stage-finds-its-pipe-end-closed-and-never-publishes-a-return-code"
K_O2E_ALIAS = "o2e-capture-closes-session-stderr-while-an-alias-stage-runs"
K_SIGINT_SYNC = "sigint-to-the-shell-alone-is-not-forwarded-on-the-synchronous-iterraw-path"
K_STD = "overlapping-alias-threads-leave-sys-stdout-on-the-dispatcher"

SIGS = ["SIGINT", "SIGTSTP", "SIGQUIT", "SIGWINCH"]


# ======================================================================================= worker side (forked child)
_S = {}


def _alias_t(args, stdin=None, stdout=None, stderr=None):
    """t <read:none|line|all> <write:none|small|big> <rc> <raise:0|1> <err:0|1>"""
    rd, wr, rc, rs = args[0], args[1], int(args[2]), args[3] == "1"
    if stdin is not None:
        if rd == "all":
            stdin.read()
        elif rd == "line":
            stdin.readline()
    if len(args) > 4 and args[4] == "1":
        print("err", file=stderr)
    if wr == "small":
        print("hi", file=stdout)
    elif wr == "big":
        for i in range(20000):
            print(i, file=stdout)
    elif wr == "sleep":
        time.sleep(8)
    elif wr == "bad":
        stdout.flush()
        stdout.buffer.write(b"ok\n\xff\xfe\n")
        stdout.flush()
    if rs:
        raise RuntimeError("boom")
    return rc


def session():
    if _S:
        return _S
    common.setup_repo_imports()
    # nothing the commands print may reach the check's own output; nothing may read the check's stdin
    dn = os.open(os.devnull, os.O_RDWR)
    for fd in (0, 1, 2):
        os.dup2(dn, fd)
    os.close(dn)
    root = common.scratch_root() / f"c09-{os.getpid()}"
    root.mkdir(parents=True, exist_ok=True)
    (root / "in.txt").write_text("line1\nline2\n")
    (root / "notexec").write_text("#!/bin/sh\necho no\n")
    os.chmod(root / "notexec", 0o644)
    os.chdir(root)
    signal.signal(signal.SIGINT, signal.default_int_handler)
    for s in (signal.SIGTSTP, signal.SIGQUIT, signal.SIGWINCH):
        signal.signal(s, signal.SIG_DFL)
    from xonsh.built_ins import XSH
    from xonsh.execer import Execer
    from xonsh.tools import unthreadable

    execer = Execer()
    XSH.load(execer=execer, inherit_env=False)
    env = XSH.env
    env["XONSH_SHOW_TRACEBACK"] = False
    env["PATH"] = ["/usr/bin", "/bin"]
    env["XONSH_INTERACTIVE"] = False
    env["HOME"] = str(root)
    env["PWD"] = str(root)
    XSH.aliases["t"] = _alias_t

    @unthreadable
    def u(args, stdin=None, stdout=None, stderr=None):
        if len(args) > 1 and args[1] == "sleep":
            time.sleep(8)
        print("hi", file=stdout)
        return int(args[0]) if args else 0

    XSH.aliases["u"] = u
    _S.update(execer=execer, XSH=XSH, root=str(root))
    _install_tracer()
    # warm up: imports, caches, lazy objects (their one-off descriptors must not count)
    std0 = (sys.stdin, sys.stdout, sys.stderr)
    for src in ("echo warm | cat > /dev/null", "x = $(echo warm)", "t none small 0 0 0", "x = !(echo warm)\nx.end()"):
        try:
            execer.exec(src + "\n", glbs={"__name__": "xv"}, locs=None, filename="<c09-warm>")
        except BaseException:  # noqa: BLE001
            pass
    _reset()
    # every case must start from a pristine session: if the warm-up itself ran into one of the known races, undo it here
    sys.stdin, sys.stdout, sys.stderr = std0
    for nm, fd, mode in (("stdout", 1, "w"), ("stderr", 2, "w")):
        if getattr(sys, nm).closed:
            setattr(sys, nm, open(fd, mode, closefd=False))
    return _S


# ---------------------------------------------------------------------------------------- tracer
class _Trace:
    on = False
    events = []  # real acquisitions made by xonsh code, in order
    closes = []  # (fd, ok) os.close calls on traced fds
    specs = []  # weakrefs of every SubprocSpec built
    wait_timeouts = []  # pids whose Popen.wait(timeout=...) expired
    waited = []  # ids of proc objects whose wait() was called


def _caller_is_xonsh(depth=2):
    try:
        f = sys._getframe(depth)
    except ValueError:
        return False
    for _ in range(3):
        if f is None:
            return False
        m = f.f_globals.get("__name__", "")
        if m.startswith("xonsh."):
            return m
        if m not in ("pty", "xonsh.lib.lazyimps"):
            return False
        f = f.f_back
    return False


def _install_tracer():
    import builtins

    real_pipe, real_openpty, real_close, real_open = os.pipe, os.openpty, os.close, builtins.open

    def pipe():
        r, w = real_pipe()
        if _Trace.on and _caller_is_xonsh():
            _Trace.events.append({"k": "pipe", "r": r, "w": w, "ino": os.fstat(r).st_ino, "lr": os.readlink(f"/proc/self/fd/{r}"), "lw": os.readlink(f"/proc/self/fd/{w}")})
        return r, w

    def openpty():
        r, w = real_openpty()
        if _Trace.on and _caller_is_xonsh():
            _Trace.events.append({"k": "pipe", "pty": True, "r": r, "w": w, "lr": os.readlink(f"/proc/self/fd/{r}"), "lw": os.readlink(f"/proc/self/fd/{w}")})
        return r, w

    def close(fd):
        if _Trace.on:
            fr = sys._getframe(1)
            if fr.f_globals.get("__name__") == "xonsh.procs.pipes":
                # PipeChannel.close_reader / close_writer: one channel object must close each of its two numbers at most once
                _Trace.closes.append((id(fr.f_locals.get("self")), fd))
        return real_close(fd)

    def open_(file, *a, **kw):
        f = real_open(file, *a, **kw)
        if _Trace.on:
            m = _caller_is_xonsh()
            fn = sys._getframe(1).f_code.co_name
            if m and m.startswith("xonsh.procs"):
                if isinstance(file, int):
                    if m == "xonsh.procs.pipes":
                        _Trace.events.append({"k": "wrap", "fd": file, "ref": weakref.ref(f)})
                elif fn == "safe_open":
                    _Trace.events.append({"k": "file", "fd": f.fileno(), "path": os.path.abspath(str(file)), "link": os.readlink(f"/proc/self/fd/{f.fileno()}")})
        return f

    os.pipe, os.openpty, os.close, builtins.open = pipe, openpty, close, open_
    import xonsh.procs.specs as xs

    real_build = xs.SubprocSpec.build.__func__

    def build(kls, cmd, **kw):
        spec = None
        try:
            spec = real_build(kls, cmd, **kw)
            return spec
        finally:
            if _Trace.on and spec is not None:
                _Trace.specs.append(weakref.ref(spec))

    xs.SubprocSpec.build = classmethod(build)
    import subprocess

    real_wait = subprocess.Popen.wait

    def wait(self, timeout=None):
        if _Trace.on and timeout is None:
            _Trace.waited.append(id(self))
        try:
            return real_wait(self, timeout=timeout)
        except subprocess.TimeoutExpired:
            if _Trace.on:
                _Trace.wait_timeouts.append(self.pid)
            raise

    subprocess.Popen.wait = wait
    import xonsh.procs.posix as xpo
    import xonsh.procs.proxies as xpr

    for kls in (xpo.PopenThread, xpr.ProcProxyThread, xpr.ProcProxy):
        def mk(real):
            def w(self, *a, **kw):
                if _Trace.on:
                    _Trace.waited.append(id(self))
                return real(self, *a, **kw)
            return w
        kls.wait = mk(kls.wait)
    real_init = xs.SubprocSpec.__init__

    def init(self, *a, **kw):
        real_init(self, *a, **kw)
        if _Trace.on:
            _Trace.specs.append(weakref.ref(self))

    xs.SubprocSpec.__init__ = init


def _still_open(e):
    """which parts of a traced acquisition are open right now"""
    out = []
    if e["k"] == "pipe":
        for side in ("r", "w"):
            try:
                if os.readlink(f"/proc/self/fd/{e[side]}") == e["l" + side]:
                    out.append(side)
            except OSError:
                pass
    elif e["k"] == "file":
        try:
            if os.readlink(f"/proc/self/fd/{e['fd']}") == e["link"]:
                out.append("f")
        except OSError:
            pass
    elif e["k"] == "wrap":
        o = e["ref"]()
        if o is not None and not o.closed:
            out.append("x")
    return out


# ---------------------------------------------------------------------------------------- observation
def _fds():
    out = {}
    for n in os.listdir("/proc/self/fd"):
        try:
            out[int(n)] = os.readlink(f"/proc/self/fd/{n}")
        except OSError:
            pass
    return out


def _children():
    out = {}
    try:
        tasks = os.listdir("/proc/self/task")
    except OSError:
        tasks = []
    for t in tasks:
        try:
            pids = open(f"/proc/self/task/{t}/children").read().split()
        except OSError:
            continue
        for pid in pids:
            try:
                st = open(f"/proc/{pid}/stat").read()
                out[int(pid)] = st[st.rindex(")") + 2]
            except (OSError, ValueError):
                pass
    return out


def _threads():
    return sorted(type(t).__name__ for t in threading.enumerate() if t is not threading.main_thread() and t.name not in ("xv-drain", "xv-sigint"))


def _hdesc(h, base):
    if h is base:
        return "orig"
    slf = getattr(h, "__self__", None)
    if slf is not None and type(slf).__name__ in ("ProcProxyThread", "PopenThread"):
        spec = getattr(slf, "spec", None)
        return [type(slf).__name__, getattr(spec, "pipeline_index", None)]
    return repr(h)[:80]


def _chain_depth():
    h, n = signal.getsignal(signal.SIGINT), 0
    while n < 100000:
        slf = getattr(h, "__self__", None)
        if slf is None or not hasattr(slf, "old_int_handler"):
            break
        n += 1
        h = slf.old_int_handler
    return n


def _snapshot():
    XSH = _S["XSH"]
    return {
        "fds": _fds(),
        "children": _children(),
        "threads": _threads(),
        "cwd": os.getcwd(),
        "std": [sys.stdin, sys.stdout, sys.stderr, sys.__stdout__, sys.__stderr__],
        "handlers": [signal.getsignal(getattr(signal, s)) for s in SIGS],
        "env": dict(XSH.env.detype()),
        "osenv": dict(os.environ),
    }


def _sigint_effect():
    try:
        os.kill(os.getpid(), signal.SIGINT)
        for _ in range(100):
            time.sleep(0.005)
        return "no interrupt"
    except KeyboardInterrupt:
        return "KeyboardInterrupt"
    except BaseException as e:  # noqa: BLE001
        return type(e).__name__


def _reset():
    """put the worker back into a clean state between cases (whatever the last case leaked)"""
    XSH = _S["XSH"]
    import subprocess

    import xonsh.procs.jobs as xj

    signal.signal(signal.SIGINT, signal.default_int_handler)
    for s in (signal.SIGTSTP, signal.SIGQUIT, signal.SIGWINCH):
        signal.signal(s, signal.SIG_DFL)
    XSH.last = XSH.lastcmd = None
    try:
        XSH.interface.lastcmd = None
    except Exception:  # noqa: BLE001
        pass
    for pid in list(_children()):
        try:
            os.kill(pid, signal.SIGKILL)
        except OSError:
            pass
    for pid in list(_children()):
        try:
            os.waitpid(pid, 0)
        except OSError:
            pass
    try:
        xj.get_jobs().clear()
        xj.get_tasks().clear()
    except Exception:  # noqa: BLE001
        pass
    subprocess._active.clear()
    base = _S.get("base_fds")
    gc.collect()
    if base is not None:
        for fd, link in _fds().items():
            if fd not in base and not link.startswith("/proc/"):
                try:
                    os.close(fd)
                except OSError:
                    pass
    else:
        _S["base_fds"] = set(_fds())
    deadline = time.time() + 3
    while time.time() < deadline and _threads():
        time.sleep(0.01)
    if os.getcwd() != _S["root"]:
        os.chdir(_S["root"])
    gc.collect()


def _exec(src):
    try:
        _S["execer"].exec(src + "\n", glbs={"__name__": "xv"}, locs=None, filename="<c09>")
    except BaseException as e:  # noqa: BLE001
        return e
    return None


def _delta(a, b):
    """what changed between two snapshots, in comparable terms"""
    d = {}
    add = {fd: l for fd, l in b["fds"].items() if a["fds"].get(fd) != l}
    rem = {fd: l for fd, l in a["fds"].items() if fd not in b["fds"]}
    if add:
        d["fds_added"] = add
    if rem:
        d["fds_removed"] = rem
    newc = {pid: st for pid, st in b["children"].items() if pid not in a["children"]}
    if newc:
        d["children"] = newc
    if b["threads"] != a["threads"]:
        d["threads"] = b["threads"]
    if b["cwd"] != a["cwd"]:
        d["cwd"] = b["cwd"]
    if any(x is not y for x, y in zip(a["std"], b["std"])):
        d["std"] = {
            nm: [type(y).__name__, "default is the original object" if getattr(y, "default", None) is x else "unrelated object"]
            for nm, x, y in zip(["sys.stdin", "sys.stdout", "sys.stderr", "sys.__stdout__", "sys.__stderr__"], a["std"], b["std"])
            if x is not y
        }
    hs = [_hdesc(h, base) for h, base in zip(b["handlers"], a["handlers"])]
    if any(h != "orig" for h in hs):
        d["handlers"] = dict(zip(SIGS, hs))
    for key in ("env", "osenv"):
        ch = {k: [a[key].get(k), b[key].get(k)] for k in set(a[key]) | set(b[key]) if a[key].get(k) != b[key].get(k)}
        if ch:
            d[key] = ch
    return d


def run_case(item):
    """Run one generated command on the real code, in a child forked from the warmed-up worker (so that whatever the command
    leaks - stuck threads, dead Ctrl-C, replaced sys.stdout - cannot reach the next case)."""
    session()
    # a stale PopenThread handler answers a SIGINT with killpg(): the worker shares the group with its case children
    signal.signal(signal.SIGINT, signal.SIG_IGN)
    r, w = os.pipe()
    pid = os.fork()
    if pid == 0:
        code = 0
        try:
            os.close(r)
            signal.signal(signal.SIGINT, signal.default_int_handler)
            try:
                res = _run_case_here(item)
            except BaseException as e:  # noqa: BLE001
                import traceback

                res = {"__exc__": f"{type(e).__name__}: {e}\n{traceback.format_exc()[-1500:]}"}
            data = json.dumps(res, default=repr).encode()
            while data:
                n = os.write(w, data)
                data = data[n:]
        except BaseException:  # noqa: BLE001
            code = 1
        finally:
            os._exit(code)
    os.close(w)
    chunks = []
    while True:
        b = os.read(r, 1 << 16)
        if not b:
            break
        chunks.append(b)
    os.close(r)
    os.waitpid(pid, 0)
    if not chunks:
        return {"__exc__": "case child died without a result"}
    return json.loads(b"".join(chunks))


def _enter_tty():
    """give the case child a controlling terminal of its own (a pty): fds 0-2 are the slave, the process is the session leader
    and the terminal's foreground process group - what an interactive shell has"""
    import fcntl
    import termios

    m, sl = os.openpty()
    os.setsid()
    fcntl.ioctl(sl, termios.TIOCSCTTY, 0)
    for fd in (0, 1, 2):
        os.dup2(sl, fd)
    if sl > 2:
        os.close(sl)
    # what xonsh.main._setup_controlling_terminal installs for an interactive shell: a Python no-op handler, so that touching the
    # terminal while it belongs to a job fails with EINTR instead of stopping the shell
    signal.signal(signal.SIGTTOU, lambda n, f: None)
    signal.signal(signal.SIGTTIN, lambda n, f: None)

    def drain():
        while True:
            try:
                if not os.read(m, 65536):
                    return
            except OSError:
                return

    threading.Thread(target=drain, name="xv-drain", daemon=True).start()
    return m


def _drain(master):
    return


def _tty_state():
    import termios

    try:
        return {"fg_is_shell": os.tcgetpgrp(2) == os.getpgrp(), "attrs": termios.tcgetattr(0)}
    except (OSError, termios.error) as e:
        return {"error": str(e)}


def _run_case_here(item):
    """item = {src, end_object, env, reps}"""
    S = session()
    XSH = S["XSH"]
    import faulthandler

    # if the command wedges, leave the stacks of all threads where the parent can read them
    hf = open(item.get("hang_file") or os.devnull, "w")
    faulthandler.dump_traceback_later(max(5, item.get("timeout", 40) - 8), repeat=False, file=hf, exit=False)
    real = [sys.stdin, sys.stdout, sys.stderr]

    thread_excs = []

    def on_thread_exc(args):
        import traceback

        try:
            where = " <- ".join(f"{os.path.basename(fr.filename)}:{fr.lineno} {fr.name}" for fr in reversed(traceback.extract_tb(args.exc_traceback)[-3:]))
        except Exception:  # noqa: BLE001
            where = "?"
        thread_excs.append(f"{args.exc_type.__name__}: {args.exc_value} in {type(args.thread).__name__} at {where}")
        try:
            hf.write(f"THREAD-EXC {args.exc_type.__name__}: {args.exc_value} in {type(args.thread).__name__} at {where}\n")
            hf.flush()
        except Exception:  # noqa: BLE001
            pass

    threading.excepthook = on_thread_exc

    def on_alarm(*_):
        try:
            hf.write("WATCHDOG real std objects closed (stdin, stdout, stderr): " + repr([bool(o.closed) for o in real]) + " threads: " + repr(_threads()) + "\n")
            lc = XSH.lastcmd
            if lc is not None:
                # a proc thread that is dead but never published a return code keeps iterraw's loop spinning for ever
                hf.write("WATCHDOG procs (class, returncode, alive): " + repr([(type(p_).__name__, getattr(p_, "returncode", "?"), bool(getattr(p_, "is_alive", lambda: None)())) for p_ in lc.procs]) + "\n")
            hf.flush()
        except Exception:  # noqa: BLE001
            pass

    signal.signal(signal.SIGALRM, on_alarm)
    signal.alarm(max(4, item.get("timeout", 40) - 10))
    master = None
    if item.get("tty"):
        master = _enter_tty()
        # a case on its own terminal has left the worker's process group: it must end itself if it wedges
        def on_alarm_tty(*_):
            on_alarm()
            signal.signal(signal.SIGALRM, signal.SIG_DFL)
            signal.alarm(15)
        signal.signal(signal.SIGALRM, on_alarm_tty)
    _S["base_fds"] = set(_fds())
    gc.collect()
    swap = dict(item.get("env") or {})
    if master is not None:
        swap["XONSH_INTERACTIVE"] = True
    reps = item.get("reps", 1)
    out = {"reps": []}
    with XSH.env.swap(**swap):
        gc.collect()
        A = _snapshot()
        tty0 = _tty_state() if master is not None else None
        chain0 = _chain_depth()
        _Trace.events, _Trace.closes, _Trace.specs, _Trace.wait_timeouts, _Trace.waited, _Trace.on = [], [], [], [], [], True
        t0 = time.time()
        exc = None
        rep = -1
        while rep + 1 < reps:
            rep += 1
            if rep == 1:
                _Trace.on = False  # only the first run is traced
                # a command that stalls (a 3 s join / wait timeout in _close_prev_procs per run) is repeated less often, so that
                # slowness is not mistaken for a wedge: the repetitions must fit into half of the time allowed for the case
                if out.get("wall", 0) > 0.25:
                    reps = max(3, min(reps, int(0.5 * item.get("timeout", 40) / out["wall"])))
                    out["reps_done"] = reps
            if rep == 0 and item.get("sigint_after"):
                # Ctrl-C while the command runs, delivered to the shell process ONLY (its children get nothing from us)
                tm = threading.Timer(item["sigint_after"], lambda: os.kill(os.getpid(), signal.SIGINT))
                tm.name, tm.daemon = "xv-sigint", True
                tm.start()
            exc = _exec(item["src"])
            _drain(master)
            lc = XSH.lastcmd
            if item.get("end_object") and lc is not None:
                try:
                    lc.end()
                except BaseException as e:  # noqa: BLE001
                    exc = exc or e
            if rep == 0:
                out["wall"] = round(time.time() - t0, 3)
                out["raised"] = None if exc is None else [type(exc).__name__, str(exc)[:200]]
                out["has_pipeline"] = lc is not None
                out["start_failed"] = lc is not None and lc.proc is None
                out["started"] = None if lc is None else len(lc.procs)
                out["procs"] = None if lc is None else [type(p).__name__ for p in lc.procs]
                # was the body of end() left before the last proc was waited for?
                out["end_aborted"] = bool(lc is not None and lc.proc is not None and lc.ended and id(lc.proc) not in _Trace.waited)
                # (1) while the exception is still referenced
                out["held"] = [_still_open(e) for e in _Trace.events]
                out["trace"] = [{k: v for k, v in e.items() if k in ("k", "path", "pty")} for e in _Trace.events]
            if rep in (0, reps - 1) or rep == 1:
                lc = None
                exc = None  # release the exception (and the traceback's frames)
                gc.collect()
                deadline = time.time() + 2
                waited = 0.0
                while _threads() and time.time() < deadline:
                    time.sleep(0.01)
                    waited += 0.01
                gc.collect()
                B = _snapshot()
                if master is not None:
                    t1 = _tty_state()
                    if t1 != tty0:
                        a0, a1 = tty0.get("attrs") or [], t1.get("attrs") or []
                        names = ["iflag", "oflag", "cflag", "lflag", "ispeed", "ospeed"]
                        diff = {n: [x, y] for n, x, y in zip(names, a0[:6], a1[:6]) if x != y}
                        if len(a0) > 6 and len(a1) > 6:
                            cc = {str(i): [repr(x), repr(y)] for i, (x, y) in enumerate(zip(a0[6], a1[6])) if x != y}
                            if cc:
                                diff["cc"] = cc
                        import termios

                        out.setdefault("tty", {})[str(rep)] = {"fg_is_shell": t1.get("fg_is_shell"), "attr_diff": diff, "VSUSP": str(termios.VSUSP),
                                                               "error": t1.get("error")}
                rec = {"rep": rep, "delta": _delta(A, B), "chain": _chain_depth() - chain0, "thread_wait": round(waited, 2),
                       "nfds": len(B["fds"]), "nchildren": len(B["children"]), "nthreads": len(B["threads"]),
                       "active": len(__import__("subprocess")._active), "jobs": len(__import__("xonsh.procs.jobs", fromlist=["x"]).get_jobs())}
                if rep == 0:
                    rec["final"] = [_still_open(e) for e in _Trace.events]
                    seen = set()
                    rec["closed_twice"] = [fd for key in _Trace.closes for fd in [key[1]] if key in seen or seen.add(key)]
                    audit = []
                    for ref in _Trace.specs:
                        s = ref()
                        if s is None:
                            continue
                        for nm in ("_stdin", "_stdout", "_stderr", "captured_stdout", "captured_stderr"):
                            v = getattr(s, nm, None)
                            if hasattr(v, "closed") and not isinstance(v, int) and not v.closed and not any(v is o_ or v is getattr(o_, "default", None) for o_ in (*real, sys.stdin, sys.stdout, sys.stderr, sys.__stdout__, sys.__stderr__)):
                                audit.append([s.pipeline_index, nm])
                        for ch in list(getattr(s, "pipe_channels", [])):
                            if ch._read_fd is not None or ch._write_fd is not None:
                                audit.append([s.pipeline_index, "channel"])
                    rec["audit"] = audit
                    rec["wait_timeouts"] = list(_Trace.wait_timeouts)
                out["reps"].append(rec)
            else:
                exc = None
        out["sigint"] = _sigint_effect()
        out["chain_after_sigint"] = _chain_depth() - chain0
    faulthandler.cancel_dump_traceback_later()
    signal.alarm(0)
    out["real_std_closed"] = [bool(o.closed) for o in real]
    out["thread_excs"] = thread_excs[:5]
    hf.close()
    _Trace.on = False
    _Trace.events, _Trace.specs = [], []
    return out


# ======================================================================================= parent side: generation
def _sh(beh):
    rd = {"none": "", "line": "read x; ", "all": "cat > /dev/null; "}[beh["read"]]
    wr = {"none": "", "small": "echo hi; ", "big": "seq 1 20000; ", "endless": "yes; ", "bad": "echo ok; printf '\\\\377\\\\376\\\\n'; "}[beh["write"]]
    er = "echo err >&2; " if beh.get("err") else ""
    return f'sh -c "{rd}{er}{wr}exit {beh["rc"]}"'


def render_stage(st):
    b = st["beh"]
    if st["kind"] == "ext":
        if not st["buildOk"]:
            cmd = "./notexec"
        elif not st["found"]:
            # two ways of failing to start: FileNotFoundError -> XonshError, or a ValueError out of Popen itself (NUL in the environment)
            cmd = '$XV_NUL="a\\0b" ' + _sh(b) if st.get("fail_how") == "nul-env" else "xv-no-such-command arg"
        elif b["write"] == "sleep":
            cmd = "sleep 8"  # exec'd directly: the child IS the long-running process
        else:
            cmd = _sh(b)
    elif st["kind"] == "thr":
        cmd = f't {b["read"]} {b["write"] if b["write"] != "endless" else "big"} {b["rc"]} {1 if b.get("raises") else 0} {1 if b.get("err") else 0}'
    else:
        cmd = f'u {b["rc"]}' + (" sleep" if b["write"] == "sleep" else "")
    for r in st["redirs"]:
        cmd += " " + (r["op"] + (" " + r["path"] if "path" in r else ""))
    if st.get("dec") and not cmd.startswith("$"):
        cmd = st["dec"] + " " + cmd
    return cmd


def render(case):
    body = " | ".join(render_stage(s) for s in case["stages"])
    if case["background"]:
        body += " &"
    cap = case["capture"]
    if cap == "bare":
        return body
    if cap == "hidden":
        return f"![{body}]"
    if cap == "uncaptured":
        return f"$[{body}]"
    if cap == "stdout":
        return f"__xv = $({body})"
    return f"__xv = !({body})"


FILE_OPS = {
    "inp": ["<"],
    "out": [">", ">>", "o>", "out>", "1>"],
    "err": ["e>", "err>", "2>", "e>>"],
    "all": ["a>", "all>", "&>", "a>>"],
}
FLAG_OPS = {"errToOut": ["e>o", "2>&1", "err>out"], "outToErr": ["o>e", "1>&2", "out>err"], "errToPipe": ["e>p", "err>p", "2>p"], "allToPipe": ["a>p", "all>p"]}


def gen_redir(rng, tgt, openable, k, j):
    if tgt in FLAG_OPS:
        return {"form": tgt, "op": rng.choice(FLAG_OPS[tgt])}
    op = rng.choice(FILE_OPS[tgt])
    if tgt == "inp":
        path = "in.txt" if openable else "missing.txt"
    else:
        path = f"o{k}_{j}.txt" if openable else f"nodir/o{k}_{j}.txt"
    return {"form": "file", "tgt": tgt, "openable": openable, "op": op, "path": path}


MODES = ["success", "nonzero", "not-found", "alias-raises", "early-exit", "unopenable", "conflict", "perm-denied", "pipe-conflict", "sentinel", "unthreadable", "undecodable"]


def gen_case(rng, mode=None, allow_bg=True):
    mode = mode or rng.choice(MODES + ["success", "not-found", "early-exit"])
    n = rng.choice([1, 2, 2, 3, 3, 4])
    if mode in ("early-exit", "pipe-conflict", "unthreadable") and n < 2:
        n = 2
    stages = []
    for k in range(n):
        kind = rng.choice(["ext", "ext", "ext", "thr", "thr"])
        beh = {"read": "none" if k == 0 else rng.choice(["all", "all", "all", "line", "none"]),
               "write": rng.choice(["small", "small", "none", "big"]), "rc": 0, "raises": False, "err": rng.random() < 0.2}
        if k == 0 and rng.random() < 0.2:
            beh["read"] = "all"
        stages.append({"kind": kind, "beh": beh, "redirs": [], "found": True, "buildOk": True})
    pos = rng.randrange(n)
    st = stages[pos]
    if mode == "nonzero":
        st["beh"]["rc"] = rng.choice([1, 3])
        if rng.random() < 0.4:
            stages[-1]["beh"]["rc"] = 2
    elif mode == "not-found":
        st["kind"], st["found"] = "ext", False
        st["fail_how"] = rng.choice(["notfound", "notfound", "nul-env"])
        if pos > 0 and rng.random() < 0.4:
            stages[pos - 1]["beh"]["write"] = rng.choice(["big", "endless"]) if stages[pos - 1]["kind"] == "ext" else "big"
    elif mode == "alias-raises":
        st["kind"] = "thr"
        st["beh"]["raises"] = True
    elif mode == "early-exit":
        pos = rng.randrange(1, n)
        stages[pos]["beh"]["read"] = rng.choice(["none", "line"])
        up = stages[pos - 1]
        up["beh"]["write"] = rng.choice(["big", "endless"]) if up["kind"] == "ext" else "big"
    elif mode == "unopenable":
        tgt = rng.choice(["inp", "out", "err", "all"])
        if (tgt == "inp" and pos > 0) or (tgt in ("out", "all") and pos < n - 1):
            tgt = "err"
        # an earlier redirect of the same stage may already have opened its file
        if rng.random() < 0.6:
            other = rng.choice([t for t in ("inp", "out", "err") if t != tgt and not (t == "inp" and pos > 0) and not (t == "out" and pos < n - 1)] or ["err"])
            if other != tgt:
                st["redirs"].append(gen_redir(rng, other, True, pos, len(st["redirs"])))
        st["redirs"].append(gen_redir(rng, tgt, False, pos, len(st["redirs"])))
    elif mode == "conflict":
        tgt = rng.choice(["inp", "out", "err", "all"])
        if (tgt == "inp" and pos > 0) or (tgt in ("out", "all") and pos < n - 1):
            tgt = "err"
        first = tgt if tgt != "all" else rng.choice(["out", "err", "all"])
        st["redirs"].append(gen_redir(rng, rng.choice([first, "errToOut"]) if first == "err" else first, True, pos, 0))
        st["redirs"].append(gen_redir(rng, tgt, True, pos, 1))
    elif mode == "perm-denied":
        st["kind"], st["buildOk"] = "ext", False
        if rng.random() < 0.7:
            tgt = "err" if rng.random() < 0.5 else ("inp" if pos == 0 else ("out" if pos == n - 1 else "err"))
            st["redirs"].append(gen_redir(rng, tgt, True, pos, 0))
    elif mode == "pipe-conflict":
        if rng.random() < 0.5:
            pos = rng.randrange(0, n - 1)
            stages[pos]["redirs"].append(gen_redir(rng, rng.choice(["out", "all", "outToErr"]), True, pos, 0))
        else:
            pos = rng.randrange(1, n)
            stages[pos]["redirs"].append(gen_redir(rng, "inp", True, pos, 0))
    elif mode == "sentinel":
        # e>p / a>p on the last stage (no following pipe) is an error; on an earlier stage it is fine
        stages[-1 if rng.random() < 0.6 else pos]["redirs"].append(gen_redir(rng, rng.choice(["errToPipe", "allToPipe"]), True, pos, 0))
    elif mode == "unthreadable":
        st["kind"] = "unthr"
    elif mode == "undecodable":
        stages[-1]["beh"]["write"] = "bad"
    # benign extra redirects on stages that have none (they must not collide with the pipes)
    for k, s in enumerate(stages):
        if not s["redirs"] and rng.random() < 0.3:
            choices = ["err", "errToOut"] + (["inp"] if k == 0 else []) + (["out", "all", "outToErr"] if k == n - 1 else [])
            if k < n - 1:
                choices += ["errToPipe", "allToPipe"]
            s["redirs"].append(gen_redir(rng, rng.choice(choices), True, k, 0))
    if n == 1 and rng.random() < 0.15 and mode in ("success", "nonzero"):
        stages[0]["kind"] = "unthr"
    # an endless producer must sit right before an early-exit stage or a stage that cannot start
    for k, s in enumerate(stages):
        if s["beh"]["write"] == "endless":
            nxt = stages[k + 1] if k + 1 < n else None
            if nxt is None or not ((nxt["beh"]["read"] in ("none", "line")) or not nxt["found"]):
                s["beh"]["write"] = "big"
    capture = rng.choice(["bare", "bare", "hidden", "uncaptured", "stdout", "stdout", "object", "object"])
    if mode == "undecodable":
        capture = rng.choice(["object", "object", "hidden", "stdout", "bare"])
    background = allow_bg and rng.random() < 0.12 and capture in ("bare", "hidden", "uncaptured")
    if background:
        for s in stages:  # keep background jobs short-lived
            if s["beh"]["write"] == "endless":
                s["beh"]["write"] = "small"
    # the ways a failure is turned into an exception (each is its own exit path of end()): the decorators, the two flags
    for s in stages:
        if rng.random() < 0.2:
            s["dec"] = rng.choice(["@error_raise", "@error_ignore"])
    case = {"mode": mode, "stages": stages, "capture": capture, "background": background, "capture_always": rng.random() < 0.15,
            "flags": [rng.random() < 0.75, rng.random() < 0.25]}
    if mode == "undecodable":
        case["strict"] = True
    case["src"] = render(case)
    return case


def model_cmd(case, aborts=False):
    stages = []
    for s in case["stages"]:
        rs = []
        for r in s["redirs"]:
            if r["form"] == "file":
                rs.append([Sym("file"), Sym(r["tgt"]), bool(r["openable"])])
            else:
                rs.append(Sym(r["form"]))
        stages.append([Sym(s["kind"]), rs, bool(s["buildOk"]), bool(s["found"])])
    cap = {"bare": "hidden", "hidden": "hidden", "uncaptured": "uncaptured", "stdout": "stdout", "object": "object"}[case["capture"]]
    return [stages, Sym(cap), bool(case["background"]), True, True, bool(case.get("capture_always")), bool(aborts)]


def vflags(variant):
    return [bool(variant[0]), bool(variant[1]), bool(variant[2])]


def model(ctx, case, variant, aborts=False):
    m = ctx.driver.call("c09.run", vflags(variant), model_cmd(case, aborts))

    def res(l):
        return sorted((r[0], str(r[1][0]), *r[1][1:]) for r in l)

    def h(x):
        return "orig" if str(x[0]) == "prior" else ["stage", x[1]]

    return {
        "why": str(m[0]),
        "start_failed": bool(m[1]),
        "started": m[2],
        "held": res(m[3]),
        "final": res(m[4]),
        "handlers": [h(x) for x in m[5][:4]],
        "saved": m[5][4],
        "opens": [(r[0], str(r[1][0]), *r[1][1:]) for r in m[6]],
        # the write ends a proc thread closes by itself if and when it ends: optional in every comparison
        "self_closes": set(res(m[7])),
    }


# ======================================================================================= judging
def real_leak(trace, still, model_opens):
    """map the real acquisitions still open onto the ledger's resource names (by order of acquisition)"""
    fdlike = [o for o in model_opens if o[1] in ("file", "pipeR", "capR", "wrapW", "wrapR")]
    out = []
    ok = len(fdlike) == len(trace)
    for o, e, st in zip(fdlike, trace, still):
        kind = {"file": "file", "pipeR": "pipe", "capR": "pipe", "wrapW": "wrap", "wrapR": "wrap"}[o[1]]
        if kind != e["k"]:
            ok = False
            break
        if o[1] == "file":
            if "f" in st:
                out.append(o)
        elif o[1] in ("pipeR", "capR"):
            w = "pipeW" if o[1] == "pipeR" else "capW"
            if "r" in st:
                out.append(o)
            if "w" in st:
                out.append((o[0], w, *o[2:]))
        elif "x" in st:
            out.append(o)
    return ok, sorted(out)


def file_paths_match(case, trace, model_opens, root_hint=None):
    """the j-th redirect file of stage k in the ledger must be the path the command names"""
    fdlike = [o for o in model_opens if o[1] in ("file", "pipeR", "capR", "wrapW", "wrapR")]
    for o, e in zip(fdlike, trace):
        if o[1] == "file":
            want = case["stages"][o[0]]["redirs"][o[2]]["path"]
            if not e.get("path", "").endswith("/" + want):
                return False
    return True


def judge(ctx, stream, case, obs, variant):
    info = {"stream": stream, "source": case["src"], "mode": case["mode"], "capture": case["capture"], "background": case["background"],
            "capture_always": case.get("capture_always", False), "case": case}
    if is_hang(obs):
        ctx.count("hang")
        mech = hang_mechanism(obs)
        key = hang_key(obs, case)
        ctx.extra.setdefault("hangs", []).append({"source": case["src"], "mechanism": mech, "classified": key, "dump_tail": obs.get("stacks", "")[-1800:]})
        ctx.spec_failure(info, {"hang": True, "mechanism": mech, "stacks": obs.get("stacks", "")[-3000:]}, "the command did not return (the session is wedged)", key)
        return
    if isinstance(obs, dict) and "__exc__" in obs:
        raise common.InfraError(f"C09 worker failed on {case['src']!r}: {obs['__exc__']}")
    aborts = bool(obs.get("end_aborted"))
    m = model(ctx, case, variant, aborts=aborts)
    r0 = obs["reps"][0]
    d = r0["delta"]
    # C06's mechanism struck inside this case: an alias stage closed the session's REAL sys.stderr / sys.stdout object and an
    # alias thread died of it (ValueError in safe_flush) before publishing its return code and closing its pipe's write end:
    # whatever else is off in this case follows from that, and the ledger (which has no dying threads) is not asked
    died = [e for e in obs.get("thread_excs") or [] if "I/O operation on closed file" in e and "ProcProxyThread" in e]
    if (any(obs.get("real_std_closed") or []) or died) and any(s["kind"] == "thr" for s in case["stages"]):
        # ... unless the closer is CommandPipeline._close_proc itself: since /repo c8fac0d the stdout slot of `$(... | cmd o>e)` holds the
        # session's sys.stderr object, and readers.safe_fdclose's guard `handle is sys.stderr` does not recognise it while an alias
        # thread has swapped the global for its dispatcher (deterministic; its own finding)
        o2e = (case["capture"] == "stdout" and any(r_.get("form") == "outToErr" for r_ in case["stages"][-1]["redirs"])
               and (obs.get("real_std_closed") or [False] * 3)[2])
        which = K_O2E_ALIAS if o2e else K_HANG
        ctx.count("case-hit-by/" + which)
        ctx.spec_failure(info | {"what": "std-closed"}, {"real_std_closed": obs.get("real_std_closed"), "alias_threads_died": died, "state_after": {k: v for k, v in d.items() if k not in ("env", "osenv")}},
                         "the session's real sys.stdin / sys.stdout / sys.stderr object was closed by the command (an alias thread died of it)", which)
        return m, False
    ctx.count(f"why/{m['why']}")
    if aborts:
        ctx.count("end-left-early/" + (obs["raised"][0] if obs["raised"] else "returned"))
    if m["start_failed"]:
        ctx.count(f"start-failure/after-{min(m['started'], 3)}-started")
    # ---- correspondence: the ledger's prediction against the real run
    dis = []
    prep_raised = not obs["has_pipeline"] and obs["raised"] is not None and obs["raised"][0] == "XonshError"
    if (m["why"] != "ok") != prep_raised:
        dis.append(["prepare-raised", prep_raised, m["why"]])
    elif m["why"] == "ok":
        if bool(obs["start_failed"]) != m["start_failed"] or (obs["started"] or 0) != m["started"]:
            dis.append(["started", [obs["start_failed"], obs["started"]], [m["start_failed"], m["started"]]])
    ok1, held = real_leak(obs["trace"], obs["held"], m["opens"])
    ok2, final = real_leak(obs["trace"], r0["final"], m["opens"])
    if not ok1 or not file_paths_match(case, obs["trace"], m["opens"]):
        dis.append(["open-events", [[e["k"], e.get("path", "")[-12:]] for e in obs["trace"]], [list(o) for o in m["opens"] if o[1] not in ("child", "thread", "pipeW", "capW")]])
    else:
        ctx.count("open-event-lists-matched")
        ctx.count("open-events", len(obs["trace"]))
        m_held = [x for x in m["held"] if x[1] not in ("child", "thread")]
        m_final = [x for x in m["final"] if x[1] not in ("child", "thread")]
        opt = m["self_closes"]

        def same(real, pred):
            return set(real) <= set(pred) and set(pred) - set(real) <= opt

        if not same(held, m_held):
            dis.append(["open-while-exception-held", [list(x) for x in held], [list(x) for x in m_held]])
        if not same(final, m_final):
            dis.append(["open-after", [list(x) for x in final], [list(x) for x in m_final]])
    sig = bool(case.get("sigint_after"))
    n_child = len([x for x in m["final"] if x[1] == "child"])
    n_thread = len([x for x in m["final"] if x[1] == "thread"])
    # a child whose `wait(timeout=3)` expired in _close_prev_procs (it was still blocked then) is "waited for" in the ledger
    timed_out = {str(p) for p in r0.get("wait_timeouts", [])}
    unexplained = {pid: st for pid, st in d.get("children", {}).items() if str(pid) not in timed_out}
    ended_ = case["capture"] == "object" or not case["background"]
    # (an interrupted wait is still a wait to the ledger: whether the children are gone after a SIGINT is for the property part)
    if len(unexplained) != n_child and ended_ and not sig:
        dis.append(["children", d.get("children"), n_child])
    real_h = list(d.get("handlers", dict.fromkeys(SIGS, "orig")).values())
    real_hn = ["orig" if x == "orig" else (["stage", x[1]] if isinstance(x, list) else x) for x in real_h]
    if real_hn != m["handlers"]:
        dis.append(["handlers", real_h, m["handlers"]])
    # threads: a leaked ledger thread is a proc thread that nobody joined; it may have ended by itself, so only "more than predicted" counts
    # ... and a thread stage in front of a stage that is never torn down may be stuck behind it even though it was joined (with a
    # timeout): its consumer still holds the read end of their pipe
    extra_threads = [t for t in d.get("threads", [])]
    leaked_stages = [x[0] for x in m["final"] if x[1] in ("child", "thread")]
    may_live = n_thread if not leaked_stages else len([s for s in case["stages"][: max(leaked_stages) + 1] if s["kind"] == "thr"])
    if sig:
        pass
    elif not ended_:
        # a pipeline nobody ends: its proc threads (and a PopenThread's reader threads) live as long as the job does
        if extra_threads and not n_thread:
            dis.append(["threads", extra_threads, n_thread])
    elif len(extra_threads) > max(n_thread, may_live) or any(t not in ("ProcProxyThread",) for t in extra_threads):
        dis.append(["threads", extra_threads, n_thread])
    for x in dis:
        ctx.disagree(stream, info, {x[0]: x[1]}, {x[0]: x[2]})
    faithful = not dis
    # ---- the property itself, on the observations
    bg = case["background"]
    ended = case["capture"] == "object" or not bg
    fails = []
    fd_part = {k: d[k] for k in ("fds_added", "fds_removed") if k in d}
    if fd_part or r0["audit"]:
        fails.append(("descriptors", {**fd_part, "unclosed_in_specs": r0["audit"]}, "the shell holds additional open descriptors (or unclosed stream objects) after the command"))
    if d.get("children") and not bg:
        fails.append(("children", d["children"], "un-reaped or still-running foreground children after the command"))
    if d.get("threads"):
        fails.append(("threads", d["threads"], "helper threads still running 2 s after the command"))
    if "handlers" in d:
        fails.append(("handlers", d["handlers"], "signal handlers differ from those before the command"))
    for k in ("cwd", "std", "env", "osenv"):
        if k in d:
            fails.append((k, d[k], f"{k} changed"))
    if obs["sigint"] != "KeyboardInterrupt":
        fails.append(("sigint", obs["sigint"], "a SIGINT sent to the shell after the command does not raise KeyboardInterrupt"))
    if sig and obs.get("wall", 0) > 7.5:
        fails.append(("not-interrupted", {"wall_s": obs["wall"], "raised": obs["raised"]}, "a SIGINT sent to the shell while the command ran did not end the command: it ran until its long stage ended by itself"))
    tty0 = (obs.get("tty") or {}).get("0")
    if tty0:
        if not tty0.get("fg_is_shell"):
            fails.append(("tty-owner", tty0, "the terminal's foreground process group is not the shell's after the command"))
        if tty0.get("attr_diff") or tty0.get("error"):
            fails.append(("tty-attrs", tty0, "the terminal attributes differ from those before the command"))
    if any(obs.get("real_std_closed") or []):
        fails.append(("std-closed", obs["real_std_closed"], "the session's real sys.stdin / sys.stdout / sys.stderr object was closed by the command"))
    if r0["closed_twice"]:
        fails.append(("double-close", r0["closed_twice"], "a PipeChannel closed the same descriptor number twice (the number may belong to somebody else by then)"))
    if held and not final:
        fails.append(("held", [list(x) for x in held], "descriptors stay open for as long as the raised exception is referenced (as sys.last_exc does at a prompt)"))
    if not fails:
        return m, faithful
    # ---- which of them are the known findings?  Only what the faithful ledger predicts, attributed to the mechanism that
    # produces it IN THE LEDGER (asked counterfactually: does the repaired ledger still show it?)
    res_leak = [x for x in m["final"]]
    leak_key, h_key = mechanism_keys(ctx, case, m, variant, aborts)
    # a proc thread of a stage that is never torn down may be stuck for good (writing into a pipe nobody reads): while it lives,
    # sys.stdout stays redirected to the dispatcher and its SIGINT handler swallows the signal - consequences of the same leak
    stuck = "ProcProxyThread" in d.get("threads", []) and bool(leaked_stages)
    n_thr = len([s for s in case["stages"] if s["kind"] == "thr"])
    std_race = (
        "std" in d and n_thr >= 2 and set(d["std"]) <= {"sys.stdout", "sys.stderr"}
        and all(v == ["FileThreadDispatcher", "default is the original object"] for v in d["std"].values())
    )
    # which branch of CommandPipeline.iterraw the command takes: the synchronous one (`$()`, or a last stage that is not threadable)
    # never looks at the procs' _interrupted flag and nobody forwards the signal to the pipeline's children
    last_ = case["stages"][-1]
    last_threadable = last_["kind"] == "thr" or (last_["kind"] == "ext" and (case["capture"] in ("stdout", "object") or (case["capture"] in ("bare", "hidden") and case.get("capture_always"))))
    sync_path = case["capture"] == "stdout" or not last_threadable
    for what, observed, why in fails:
        key = None
        if sig and sync_path and m["why"] == "ok" and not m["start_failed"] and (
                what in ("children", "not-interrupted") or (what == "threads" and set(observed) <= {"PrevProcCloser"})):
            key = K_SIGINT_SYNC
        elif faithful:
            if what == "children" and not unexplained and ended and not res_leak and not sig and set(observed.values()) <= {"Z"}:
                key = K_WAIT
            elif what in ("descriptors", "children", "threads"):
                key = leak_key
            elif what == "handlers":
                key = h_key
            elif what == "std":
                key = leak_key if stuck else (K_STD if std_race else None)
            elif what == "sigint":
                # a stale proc handler decides by the state of ITS proc whether the signal gets through
                key = leak_key if stuck else h_key
            elif what == "std-closed" and n_thr >= 1:
                key = K_HANG
            elif what == "tty-owner":
                # end() is `_end(); _return_terminal()` without try/finally: the terminal comes back only if _end() returns, or in the
                # finally of the CalledProcessError it raises itself; any OTHER exception out of _end() skips it
                end_raised_other = (obs["has_pipeline"] and not obs["start_failed"] and obs["raised"] is not None
                                    and obs["raised"][0] not in ("CalledProcessError", "XonshCalledProcessError"))
                key = K_ABORT if end_raised_other else None
            elif what == "tty-attrs":
                last = case["stages"][-1]
                popen_thread_last = last["kind"] == "ext" and case["capture"] in ("stdout", "object") and m["why"] == "ok" and not m["start_failed"]
                only_vsusp = observed.get("attr_diff") == {"cc": {observed.get("VSUSP"): [repr(b"\x1a"), repr(b"\x00")]}}
                if only_vsusp and popen_thread_last and aborts:
                    key = K_ABORT  # PopenThread._clean_up (which also puts the suspend character back) runs in wait() only
                elif only_vsusp and popen_thread_last and case["capture"] == "stdout" and all(s_["kind"] == "thr" for s_ in case["stages"][:-1]):
                    key = K_VSUSP
            elif what == "held":
                if m["why"] in ("build", "wire") and not variant[2]:
                    key = K_HELD
        ctx.count(f"property-failure/{what}/{key or 'NEW'}")
        ctx.spec_failure(info | {"what": what}, observed, why, key)
    return m, faithful


def hang_is_known(case):
    """the intermittent wedge seen on the unchanged tree: a pipeline (>= 2 stages) with a callable alias on a thread"""
    thr = [s for s in case["stages"] if s["kind"] == "thr"]
    return len(case["stages"]) >= 2 and len(thr) >= 1


_BATCH = [0]


def run_batch(items, timeout=28):
    """-> results; a wedged item comes back as {"__hang__": True, "stacks": the stack dump its child left behind}"""
    root = common.scratch_root()
    for it in items:
        _BATCH[0] += 1
        it["timeout"] = timeout
        it["hang_file"] = str(root / f"c09-hang-{_BATCH[0]}.txt")
    res = common.map_in_child(run_case, items, per_item_timeout=timeout, label="c09")
    out = []
    for it, r in zip(items, res):
        if r == common.HANG:
            try:
                stacks = open(it["hang_file"]).read()
            except OSError:
                stacks = ""
            r = {"__hang__": True, "stacks": stacks[-6000:]}
        try:
            os.remove(it["hang_file"])
        except OSError:
            pass
        out.append(r)
    return out


def is_hang(obs):
    return isinstance(obs, dict) and obs.get("__hang__") is True


def hang_mechanism(obs):
    """what the stack / diagnostics dump of a wedged command shows"""
    st = obs.get("stacks", "")
    return {
        "main_thread_inside_CommandPipeline": "xonsh/procs/pipelines.py" in st,
        # the mechanism C06 pinned down: an alias stage closed the REAL sys.stderr / sys.stdout object (safe_fdclose only guards
        # `handle is sys.stderr`, which is the dispatcher while another alias thread is inside redirect_stderr); from then on every
        # alias thread dies in safe_flush (ValueError) before it publishes its return code and closes its pipe's write end
        "real_std_object_closed_or_alias_thread_died_of_it": ("I/O operation on closed file" in st) or ("closed (stdin, stdout, stderr): [" in st and "True" in st.split("closed (stdin, stdout, stderr): [")[1].split("]")[0]),
    }


def hang_key(obs, case):
    """the known finding a wedge belongs to, by what the dump shows - never by the shape of the command"""
    st = obs.get("stacks", "")
    if not any(s["kind"] == "thr" for s in case["stages"]):
        return None
    if all(hang_mechanism(obs).values()):
        return K_HANG
    # a callable-alias stage found its pipe end already closed (EBADF escaped ProcProxyThread.run), its thread is dead, it never
    # published a return code, and the main thread is in iterraw's `while ... _any_proc_running()` loop
    if ("THREAD-EXC OSError: [Errno 9] Bad file descriptor in ProcProxyThread" in st and "('ProcProxyThread', None, False)" in st
            and " in iterraw" in st):
        return K_EBADF
    return None


def to_item(case, reps=1):
    env = {}
    if case.get("capture_always"):
        env["XONSH_CAPTURE_ALWAYS"] = True
    if case.get("strict"):
        env["XONSH_ENCODING_ERRORS"] = "strict"
    if case.get("flags"):
        env["XONSH_SUBPROC_RAISE_ERROR"], env["XONSH_SUBPROC_CMD_RAISE_ERROR"] = bool(case["flags"][0]), bool(case["flags"][1])
    return {"src": case["src"], "end_object": case["capture"] == "object", "env": env, "reps": reps, "tty": bool(case.get("tty")),
            "sigint_after": case.get("sigint_after")}


# ======================================================================================= streams
def stream_shapes(ctx, n, variant, name="pipelines-x-failure-modes"):
    ctx.stream_rule(
        name,
        "random pipelines of 1-4 stages (external `sh -c` processes, callable aliases on threads, unthreadable aliases) x capture "
        "form (bare, ![], $[], $(), !(), $XONSH_CAPTURE_ALWAYS) x background x redirects (<, >, >>, e>, a>, e>o, o>e, e>p, a>p) x "
        "failure mode (success, non-zero exit, command not found at each position incl. behind a still-writing producer, alias "
        "raises, early-exit consumer behind a big / endless producer, unopenable redirect after an opened one, conflicting "
        "redirects, redirect colliding with a pipe, permission denied after the redirects, misplaced e>p, unthreadable alias in a "
        "pipeline); each runs through the real Execer in a forked worker; before/after: /proc/self/fd with link targets, children "
        "and zombies, threads, cwd, sys.std*, handlers of INT/TSTP/QUIT/WINCH, environment, a self-sent SIGINT; every SubprocSpec "
        "built is audited for unclosed streams / channels; the real os.pipe / openpty / open calls are matched one by one with the "
        "ledger's open events and what is still open (while the exception is held, and after) with the ledger's prediction; "
        "non-trivial = a failure mode other than success",
    )
    CH = 60
    for base in range(0, n, CH):
        if ctx.enough_failures():
            break
        cases = [gen_case(ctx.rng) for _ in range(base, min(n, base + CH))]
        results = run_batch([to_item(c) for c in cases])
        for c, obs in zip(cases, results):
            ctx.case(name, c["src"] + repr(c.get("capture_always")), c["mode"] != "success", {"source": c["src"], "mode": c["mode"]})
            ctx.count(f"mode/{c['mode']}")
            ctx.count(f"capture/{c['capture']}" + ("+bg" if c["background"] else ""))
            ctx.count(f"stages/{len(c['stages'])}")
            for s in c["stages"]:
                ctx.count(f"kind/{s['kind']}")
            judge(ctx, name, c, obs, variant)


def run_channel_case(item):
    """a real PipeChannel under a sequence of operations from one or two threads; after every operation: which of its two
    descriptors are still THAT pipe, how often os.close was called on each number, whether a decoy descriptor that takes the
    freed number survives"""
    session()
    from xonsh.procs.pipes import PipeChannel

    ops = item["ops"]
    ch = PipeChannel.from_pipe()
    r, w = ch.read_fd, ch.write_fd
    links = {r: os.readlink(f"/proc/self/fd/{r}"), w: os.readlink(f"/proc/self/fd/{w}")}
    calls = {r: 0, w: 0}
    real_close = os.close
    errors = []

    def counting_close(fd):
        if fd in calls and sys._getframe(1).f_globals.get("__name__") == "xonsh.procs.pipes":
            calls[fd] += 1
        return real_close(fd)

    os.close = counting_close
    decoys = []
    states = []
    try:
        for op in ops:
            def do(o=op):
                try:
                    if o == "closeR":
                        ch.close_reader()
                    elif o == "closeW":
                        ch.close_writer()
                    elif o == "close":
                        ch.close()
                    elif o == "openW":
                        try:
                            ch.open_writer("wb").close()
                        except OSError:
                            pass
                    elif o == "openR":
                        try:
                            ch.open_reader("rb").close()
                        except OSError:
                            pass
                    elif o == "del":
                        ch.__del__()
                except BaseException as e:  # noqa: BLE001
                    errors.append(f"{o}: {type(e).__name__}: {e}")

            if item.get("threads"):
                ts = [threading.Thread(target=do) for _ in range(2)]
                for t in ts:
                    t.start()
                for t in ts:
                    t.join()
            else:
                do()
            st = []
            for fd in (r, w):
                try:
                    st.append(os.readlink(f"/proc/self/fd/{fd}") == links[fd])
                except OSError:
                    st.append(False)
            states.append(st)
            # somebody else takes the lowest free numbers: a second close of a stale number would hit these
            d = os.open(os.devnull, os.O_RDONLY)
            decoys.append((d, os.readlink(f"/proc/self/fd/{d}")))
    finally:
        os.close = real_close
    decoys_ok = all(os.path.exists(f"/proc/self/fd/{d}") and os.readlink(f"/proc/self/fd/{d}") == l for d, l in decoys)
    for d, _ in decoys:
        try:
            os.close(d)
        except OSError:
            pass
    ch.close()
    return {"states": states, "close_calls": [calls[r], calls[w]], "errors": errors, "decoys_ok": decoys_ok}


def stream_channels(ctx, n, name="pipechannel-close-idempotence"):
    ctx.stream_rule(
        name,
        "a real PipeChannel under random sequences of close_reader / close_writer / close / open_writer / open_reader / __del__, "
        "each issued once or from two threads at the same moment, while every freed descriptor number is immediately taken by a "
        "decoy: after every operation the set of ends that are still that pipe must equal the ledger's (c09.channel: the same "
        "events under stepRes), os.close must have been called at most once per end in total, no exception may escape and no "
        "decoy may have been closed; non-trivial = an end is closed more than once",
    )
    OPS = ["closeR", "closeW", "close", "openW", "openR", "del"]
    items = []
    for _ in range(n):
        k = ctx.rng.randint(1, 8)
        items.append({"ops": [ctx.rng.choice(OPS) for _ in range(k)], "threads": ctx.rng.random() < 0.4})
    res = common.map_in_child(run_channel_case, items, per_item_timeout=20, label="c09-channel")
    for it, obs in zip(items, res):
        info = {"stream": name, "ops": it["ops"], "two_threads": it["threads"]}
        if obs == common.HANG or (isinstance(obs, dict) and "__exc__" in obs):
            raise common.InfraError(f"C09 channel worker failed: {str(obs)[:300]}")
        mops = [Sym("close") if o == "del" else Sym(o) for o in it["ops"]]
        m = ctx.driver.call("c09.channel", mops)
        want = [[bool(a), bool(b)] for a, b in m]
        closes = [o for o in it["ops"] if o in ("closeR", "closeW", "close", "del")]
        ctx.case(name, repr(it), len(closes) >= 2 or it["threads"], {"ops": it["ops"], "two_threads": it["threads"]})
        if obs["states"] != want:
            ctx.disagree(name, info, obs["states"], want)
            ctx.spec_failure(info, {"open_ends_after_each_op": obs["states"], "ledger": want}, "a PipeChannel end is open / closed when the ledger says otherwise", None)
        if max(obs["close_calls"]) > 1 or obs["errors"] or not obs["decoys_ok"]:
            ctx.spec_failure(info, {"os_close_calls_per_end": obs["close_calls"], "escaped": obs["errors"], "decoys_survived": obs["decoys_ok"]},
                             "closing a PipeChannel is not idempotent (a descriptor number closed twice / an exception / somebody else's descriptor closed)", None)


def gen_sigint_case(rng, tty):
    """a pipeline with ONE long-running stage (8 s) that will be interrupted by a SIGINT sent to the shell process alone"""
    n = rng.choice([1, 2, 2, 3, 3])
    pos = rng.randrange(n)
    # the long stage is a process, or an unthreadable alias on the main thread; NOT an alias on a proxy thread: Python offers no way
    # of stopping a thread, so such a stage runs on after the shell has given up on it (3 s join) by construction
    long_kind = "ext" if n > 1 else rng.choice(["ext", "ext", "ext", "unthr"])
    stages = []
    for k in range(n):
        if k == pos:
            kind, beh = long_kind, {"read": "none", "write": "sleep", "rc": 0, "raises": False, "err": False}
        else:
            kind = rng.choice(["ext", "thr"])
            # in front of the long stage: something that writes and ends; behind it: something that waits for its EOF, or not
            beh = {"read": "none" if k < pos else rng.choice(["all", "all", "none"]), "write": rng.choice(["small", "none"]), "rc": 0, "raises": False, "err": False}
        stages.append({"kind": kind, "beh": beh, "redirs": [], "found": True, "buildOk": True})
    case = {"mode": f"sigint during a long {long_kind} stage", "stages": stages, "capture": rng.choice(["bare", "hidden", "uncaptured", "stdout", "object"]),
            "background": False, "capture_always": False, "flags": [rng.random() < 0.75, False], "sigint_after": 0.6, "long_stage": pos}
    if tty:
        case["tty"] = True
    case["src"] = render(case)
    return case


def stream_sigint(ctx, n, variant, name="sigint-during-the-command"):
    ctx.stream_rule(
        name,
        "generated pipelines of 1-3 stages with ONE long-running stage (an external `sleep 8`, or alone an unthreadable alias "
        "sleeping on the main thread; not an alias on a proxy thread - a Python thread cannot be stopped) at any position, alias and external neighbours (writers in "
        "front, stages waiting for its EOF or not behind), every capture form, plain and as an interactive shell on a pty; 0.6 s "
        "into the command a SIGINT is sent to the SHELL PROCESS ONLY (what a Ctrl-C amounts to for a script, or when the job is "
        "not the terminal's foreground group): the command must end within 7.5 s (two 3 s join timeouts are tolerated), and then the same before / after observation "
        "applies - no child still running or un-reaped, no helper thread, descriptors, handlers, std streams, terminal as before, a "
        "further self-sent SIGINT still raises KeyboardInterrupt; the ledger is asked with endAborts as observed",
    )
    # one directed shape per branch of iterraw x who is last x where the long stage sits, plain and on the pty; then generated ones
    directed = [
        ("bare", [("ext", "none", "sleep"), ("thr", "all", "small")], False),       # threadable branch, alias last, long stage in front
        ("object", [("ext", "none", "sleep"), ("thr", "all", "none")], False),
        ("hidden", [("thr", "none", "small"), ("ext", "none", "sleep"), ("thr", "all", "small")], False),
        ("object", [("ext", "none", "sleep"), ("ext", "all", "none")], False),     # threadable branch, PopenThread last
        ("object", [("ext", "none", "small"), ("ext", "none", "sleep")], False),
        ("bare", [("ext", "none", "sleep")], False),                               # synchronous branch, plain Popen
        ("stdout", [("ext", "none", "sleep"), ("thr", "all", "small")], False),    # synchronous branch because of $()
        ("uncaptured", [("ext", "none", "sleep"), ("ext", "all", "none")], False),
        ("bare", [("ext", "none", "sleep"), ("thr", "all", "small")], True),
        ("object", [("thr", "none", "small"), ("ext", "none", "sleep"), ("thr", "all", "none")], True),
    ]
    cases = []
    for cap, stages, tty in directed[: max(4, n // 2)]:
        c = {"mode": "sigint during a long ext stage (directed)", "capture": cap, "background": False, "capture_always": False, "flags": [True, False],
             "sigint_after": 0.6, "stages": [{"kind": k_, "beh": {"read": rd, "write": wr, "rc": 0, "raises": False, "err": False}, "redirs": [], "found": True, "buildOk": True}
                                             for k_, rd, wr in stages]}
        if tty:
            c["tty"] = True
        c["src"] = render(c)
        cases.append(c)
    cases += [gen_sigint_case(ctx.rng, tty=(k % 3 == 2)) for k in range(max(0, n - len(cases)))]
    results = run_batch([to_item(c) for c in cases])
    for c, obs in zip(cases, results):
        ctx.case(name, c["src"] + repr(c.get("tty")), True, {"source": c["src"], "mode": c["mode"], "tty": bool(c.get("tty"))})
        ctx.count(f"sigint/{c['mode']}/{c['capture']}")
        judge(ctx, name, c, obs, variant)


def stream_tty(ctx, n, variant, name="interactive-on-a-pty"):
    ctx.stream_rule(
        name,
        "the same generator, but the forked worker first makes a fresh pty its controlling terminal (session leader, fds 0-2 on the "
        "slave, foreground process group) and sets $XONSH_INTERACTIVE: pipelines get their own process group and the terminal "
        "(give_terminal_to / _return_terminal / termios save-restore run for real); in addition to everything above, after the command "
        "os.tcgetpgrp(tty) must be the shell's process group again and termios.tcgetattr must be unchanged - on every exit path: "
        "success, non-zero exit raised by @error_raise / $XONSH_SUBPROC_CMD_RAISE_ERROR / $XONSH_SUBPROC_RAISE_ERROR or ignored, "
        "command not found at each position, alias raising, early exit, bad redirects",
    )
    CH = 60
    for base in range(0, n, CH):
        if ctx.enough_failures():
            break
        cases = []
        for _ in range(base, min(n, base + CH)):
            c = gen_case(ctx.rng, mode=ctx.rng.choice(["success", "nonzero", "nonzero", "nonzero", "not-found", "not-found", "alias-raises", "early-exit", "unopenable", "conflict", "undecodable"]), allow_bg=False)
            c["tty"] = True
            c["capture_always"] = False
            # nothing may wait for input from the terminal
            if not any(r.get("tgt") == "inp" for r in c["stages"][0]["redirs"]):
                c["stages"][0]["beh"]["read"] = "none"
            # raise sites: make the failing command (or the last one) carry a decorator more often than the general stream does
            if c["mode"] == "nonzero" and ctx.rng.random() < 0.6:
                for s_ in c["stages"]:
                    if s_["beh"]["rc"]:
                        s_["dec"] = ctx.rng.choice(["@error_raise", "@error_raise", "@error_ignore"])
            c["src"] = render(c)
            cases.append(c)
        results = run_batch([to_item(c) for c in cases])
        for c, obs in zip(cases, results):
            ctx.case(name, c["src"], c["mode"] != "success", {"source": c["src"], "mode": c["mode"]})
            ctx.count(f"tty-mode/{c['mode']}")
            ctx.count(f"tty-capture/{c['capture']}")
            judge(ctx, name, c, obs, variant)


DIRECTED = [
    # (what it is about, stages as (kind, read, write, found), capture, background)
    ("endless producer in front of a command that is not found", [("ext", "none", "endless", True), ("ext", "all", "none", False)], "bare", False),
    ("alias producer in front of a command that is not found", [("thr", "none", "small", True), ("ext", "all", "none", False)], "bare", False),
    ("three stages, the last one not found", [("ext", "none", "small", True), ("ext", "all", "small", True), ("ext", "all", "none", False)], "stdout", False),
    ("callable alias in front of an external command", [("thr", "none", "small", True), ("ext", "all", "none", True)], "bare", False),
    ("two callable aliases", [("thr", "none", "small", True), ("thr", "all", "small", True)], "stdout", False),
    ("early exit behind an endless producer", [("ext", "none", "endless", True), ("ext", "line", "none", True)], "bare", False),
    ("captured object of a failing command", [("ext", "none", "small", True)], "object", False),
    ("background pipeline", [("ext", "none", "small", True), ("ext", "all", "none", True)], "bare", True),
]


def directed_case(spec):
    what, stages, capture, bg = spec
    st = [{"kind": k, "beh": {"read": rd, "write": wr, "rc": 0, "raises": False, "err": False}, "redirs": [], "found": found, "buildOk": True}
          for k, rd, wr, found in stages]
    case = {"mode": "directed: " + what, "stages": st, "capture": capture, "background": bg, "capture_always": False}
    case["src"] = render(case)
    return case


def mechanism_keys(ctx, case, m, variant, aborts):
    """which known finding explains a residue / a handler deviation THAT THE LEDGER PREDICTS (asked counterfactually)"""
    ended = case["capture"] == "object" or not case["background"]
    leak_key = h_key = None
    if m["final"]:
        if not ended:
            leak_key = K_BG
        elif m["start_failed"] and m["started"] >= 1 and not variant[0]:
            if not model(ctx, case, (True, variant[1], variant[2]), aborts=aborts)["final"]:
                leak_key = K_LATE
        elif aborts and all(x[1] == "child" and x[0] == m["started"] - 1 for x in m["final"]):
            leak_key = K_ABORT
    if m["handlers"] != ["orig"] * 4:
        hi = m["handlers"][0]
        last_started = m["started"] - 1
        if not ended:
            h_key = K_BG
        elif isinstance(hi, list) and hi[1] == last_started and aborts and not m["start_failed"] and not variant[1]:
            h_key = K_ABORT
        elif isinstance(hi, list) and case["stages"][hi[1]]["kind"] == "thr" and (hi[1] < last_started or m["start_failed"]) and not variant[1]:
            h_key = K_SIGINT
    return leak_key, h_key


def stream_repetition(ctx, n, reps, variant, name="repetition"):
    ctx.stream_rule(
        name,
        f"generated commands (one per failure mode) and directed ones (a still-writing producer / an alias in front of a command "
        f"that cannot start; aliases in front of other stages; early exit; `!()`; a background pipeline) are repeated {reps} times in one "
        "session; descriptors, children, threads, the depth of the chain of proc objects behind SIGINT, subprocess._active and the "
        "job table are sampled after the 1st, 2nd and last repetition (exception released, gc run): ANY growth between the 2nd and "
        "the last sample is a violation; it counts as a known finding only if the ledger's `repeat` predicts growth of that kind by a "
        "known mechanism; a self-sent SIGINT must still raise KeyboardInterrupt afterwards",
    )
    cases = [directed_case(d) for d in DIRECTED]
    for k in range(n):
        cases.append(gen_case(ctx.rng, mode=MODES[k % len(MODES)], allow_bg=False))
    results = run_batch([to_item(c, reps) for c in cases], timeout=60 + reps)
    for c, obs in zip(cases, results):
        ctx.case(name, c["src"] + repr(c.get("capture_always")), True, {"source": c["src"], "mode": c["mode"], "reps": reps})
        info = {"stream": name, "source": c["src"], "mode": c["mode"], "reps": reps, "case": c}
        if is_hang(obs):
            mech = hang_mechanism(obs)
            ctx.count("hang")
            ctx.extra.setdefault("hangs", []).append({"source": c["src"], "reps": reps, "mechanism": mech, "dump_tail": obs.get("stacks", "")[-1800:]})
            ctx.spec_failure(info, {"hang": True, "mechanism": mech, "stacks": obs.get("stacks", "")[-3000:]}, "repeating the command wedged the session",
                             hang_key(obs, c))
            continue
        if isinstance(obs, dict) and "__exc__" in obs:
            raise common.InfraError(f"C09 worker failed on {c['src']!r}: {obs['__exc__']}")
        aborts = bool(obs.get("end_aborted"))
        m1 = model(ctx, c, variant, aborts=aborts)
        leak_n, saved_n, cur_same = ctx.driver.call("c09.repeat", vflags(variant), reps, model_cmd(c, aborts))
        leak_key, h_key = mechanism_keys(ctx, c, m1, variant, aborts)
        second, last = obs["reps"][1], obs["reps"][-1]
        growth = {k: last[k] - second[k] for k in ("nfds", "nchildren", "nthreads", "chain", "active", "jobs")}
        ctx.count("repetitions", reps)
        # what the ledger says piles up: descriptors, children / threads never waited for, remembered handlers
        pred = {
            "nfds": len([x for x in m1["final"] if x[1] in ("file", "pipeR", "pipeW", "capR", "capW")]) > 0,
            "nchildren": any(x[1] == "child" for x in m1["final"]),
            "nthreads": any(x[1] == "thread" for x in m1["final"]),
            "chain": saved_n >= reps,
            "active": any(x[1] == "child" for x in m1["final"]),
            "jobs": not (c["capture"] == "object" or not c["background"]),
        }
        for k, v in growth.items():
            if v <= 0:
                continue
            key = None
            if pred[k]:
                key = h_key if k == "chain" else leak_key
            ctx.count(f"growth/{k}/{key or 'NEW'}")
            ctx.spec_failure(info | {"what": "growth of " + k}, {"growth_between_repetition_2_and_last": growth, "ledger_predicts_growth_of": [p for p, b in pred.items() if b],
                                    "ledger_totals_after_all": {"open": leak_n, "remembered_handlers": saved_n, "signal_table_as_before": bool(cur_same)}},
                             f"{k} grows with the number of repetitions", key)
        if obs["sigint"] != "KeyboardInterrupt":
            stuck = last["nthreads"] > 0 and any(x[1] == "thread" for x in m1["final"])
            key = (leak_key if stuck else h_key) if (saved_n >= reps or stuck) else None
            ctx.count(f"sigint-after-repetitions/{obs['sigint']}/{key or 'NEW'}")
            ctx.spec_failure(info | {"what": "sigint"}, {"sigint": obs["sigint"], "handler_chain_depth": last["chain"]},
                             "after the repetitions a SIGINT does not raise KeyboardInterrupt", key)


# ======================================================================================= known findings
def replay_known(ctx):
    """replays the witnesses of the known findings; -> the variant (teardown, lifo, closeOwn) that matches the implementation"""
    flags = {K_LATE: True, K_SIGINT: True, K_HELD: True}
    for f in ctx.known:
        w = f["witness"]
        if w.get("intermittent"):
            if str(f.get("status", "")).startswith("fixed"):
                # a FIXED timing-dependent finding: its witness is run a number of times; one wedge is a recurrence
                case = w["case"]
                case["src"] = render(case)
                res = run_batch([to_item(case) for _ in range(ctx.n(16, 80))])
                wedged = [o for o in res if is_hang(o)]
                ctx.replayed(f["key"], bool(wedged), {"runs": len(res), "wedged": len(wedged), "dump_tail": (wedged[0].get("stacks", "")[-800:] if wedged else None)})
                if wedged:
                    ctx.spec_failure({"stream": "known-witness", "source": case["src"], "case": case, "status": f.get("status")},
                                     {"runs": len(res), "wedged": len(wedged), "stacks": wedged[0].get("stacks", "")[-2500:]}, f["what"], f["key"])
            continue
        fails, details, src = False, [], []
        for case in w.get("cases") or [w["case"]]:
            case["src"] = render(case)
            src.append(case["src"])
            for attempt in range(4):
                obs = run_batch([to_item(case, w.get("reps", 1))])[0]
                has_alias = any(s_["kind"] == "thr" for s_ in case["stages"])
                hit = is_hang(obs) or (has_alias and f["key"] != K_O2E_ALIAS and isinstance(obs, dict) and (any(obs.get("real_std_closed") or []) or obs.get("thread_excs")))
                if not hit:
                    break
                # the intermittent wedge (K_HANG) struck the witness itself: note it and run the witness again
                ctx.count("witness-rerun-after/" + K_HANG)
                if is_hang(obs) and hang_key(obs, case) is None:
                    break
            if is_hang(obs) or (isinstance(obs, dict) and "__exc__" in obs):
                raise common.InfraError(f"C09 known-finding witness did not run: {str(obs)[:500]}")
            r0 = obs["reps"][0]
            d = r0["delta"]
            tty0 = (obs.get("tty") or {}).get("0") or {}
            if f["key"] == K_LATE:
                bad = bool(d.get("fds_added")) or bool(d.get("children"))
            elif f["key"] == K_SIGINT:
                bad = "handlers" in d and obs["reps"][-1]["chain"] >= w.get("reps", 1)
            elif f["key"] == K_BG:
                bad = bool(d.get("fds_added"))
            elif f["key"] == K_HELD:
                bad = any(obs["held"]) and not any(r0["final"])
            elif f["key"] == K_ABORT:
                # the handlers the last proc swapped, and (on a terminal) who owns the terminal after _end() raised
                bad = (bool(obs.get("end_aborted")) and "handlers" in d) or (bool(tty0) and not tty0.get("fg_is_shell"))
            elif f["key"] == K_WAIT:
                bad = bool(r0.get("wait_timeouts")) and bool(d.get("children"))
            elif f["key"] == K_VSUSP:
                bad = bool(tty0.get("attr_diff"))
            elif f["key"] == K_SIGINT_SYNC:
                bad = bool(d.get("children"))
            elif f["key"] in (K_STDERR_CLOSED, K_O2E_ALIAS):
                bad = any(obs.get("real_std_closed") or [])
            else:
                bad = bool(d)
            fails = fails or bad
            details.append({"source": case["src"], "fails": bad, "delta": d, "held": obs["held"], "sigint": obs["sigint"], "terminal": tty0 or None,
                            "wait_timeouts": r0.get("wait_timeouts"), "real_std_closed": obs.get("real_std_closed")})
        if f["key"] in flags:
            # the ledger variant follows the implementation, whatever the file says (a recurrence of a fixed finding must not
            # also drown in disagreements)
            flags[f["key"]] = not fails
        ctx.replayed(f["key"], fails, details if len(details) > 1 else details[0])
        if fails:
            # an open finding that still fails is a known finding; a FIXED one that fails again is a violation (its key is not open)
            ctx.spec_failure({"stream": "known-witness", "source": " ;; ".join(src), "case": (w.get("cases") or [w["case"]])[0], "status": f.get("status")},
                             details, f["what"], f["key"])
    return (flags[K_LATE], flags[K_SIGINT], flags[K_HELD])


def run(ctx):
    ctx.assumptions += [
        "commands are `sh -c` children / callable aliases whose behaviour (how much they read, how much they write, exit code, raising) is generated; every started child exits once its input ends or its output is closed",
        "$THREAD_SUBPROCS is True, $XONSH_STORE_STDIN False, $XONSH_INTERACTIVE False (the interactive stream sets it True on a pty of its own, with the SIGTTOU / SIGTTIN no-op handlers xonsh.main installs)",
        "the observation point is the moment the command has returned to the caller: exception object released, gc.collect() run; `!()` objects are ended by the harness (their value is demanded)",
    ]
    ctx.explanation = (
        "Model lean/XonshVerif/Model/FdLedger.lean, lemmas Lemmas/FdLedger.lean, theorems Props/C09.lean; tie = generated pipelines x "
        "failure modes through the real Execer in a forked worker (one child per case), the session's state sampled before / after and "
        "compared with the ledger's prediction; the model variant (which repairs the code carries) is chosen by replaying the known "
        "findings' witnesses, so a correct repair switches a finding off instead of raising an alarm. A property failure counts as a "
        "known finding only if the faithful ledger predicts exactly what was observed and the mechanism that produces it in the ledger "
        "is that finding's."
    )
    ctx.trusted_base += ["the correspondence harness xv/props/c09.py (forked workers, /proc sampling, recording wrappers around os.pipe / os.openpty / os.close / open / Popen.wait)"]
    variant = replay_known(ctx)
    ctx.extra["model_variant"] = {"teardown": variant[0], "lifo": variant[1], "closeOwn": variant[2]}
    stream_shapes(ctx, ctx.n(360, 3600), variant)
    stream_tty(ctx, ctx.n(100, 900), variant)
    stream_sigint(ctx, ctx.n(24, 240), variant)
    stream_repetition(ctx, ctx.n(11, 33), ctx.n(40, 200), variant)
    stream_channels(ctx, ctx.n(150, 3000))


def search(ctx, reason):
    ctx.extra["search_reason"] = reason
    mv = ctx.extra.get("model_variant", {})
    variant = (mv.get("teardown", False), mv.get("lifo", False), mv.get("closeOwn", False))
    stream_shapes(ctx, ctx.n(1200, 6000), variant, name="search:pipelines-x-failure-modes")


def replay(ctx, path):
    r = json.loads(open(path).read())
    c = r["case"]
    case = c.get("case")
    if not case:
        print("re-run ./check C09 with the same seed for this stream")
        return common.EXIT_INFRA
    case["src"] = render(case)
    variant = replay_known(ctx)
    ctx.spec_failures.clear()
    obs = run_batch([to_item(case, c.get("reps", 1))])[0]
    print("source:", case["src"], "(interactive, on a pty)" if case.get("tty") else "")
    if isinstance(obs, dict) and "__exc__" in obs:
        print("worker error:", obs["__exc__"])
        return common.EXIT_INFRA
    if not is_hang(obs):
        print("state after vs before:", json.dumps(obs["reps"][-1]["delta"], default=repr)[:1500])
        print("while the exception was held:", obs["held"], " SIGINT ->", obs["sigint"], " terminal:", obs.get("tty"))
    judge(ctx, "replay", case, obs, variant)
    open_keys = {f["key"] for f in ctx.known if f.get("status") == "open"}
    new = [f for f in ctx.spec_failures if f["key"] not in open_keys]
    for f in ctx.spec_failures:
        print(("NEW: " if f["key"] not in open_keys else f"known finding {f['key']}: ") + f["why"], json.dumps(f["observed"], default=repr)[:600])
    for d in ctx.disagreements:
        print("ledger disagrees:", json.dumps(d["impl"], default=repr)[:300], "vs", json.dumps(d["model"], default=repr)[:300])
    bad = bool(new)
    print(f"VIOLATION property={ID} replay={path}" if bad else "property holds on this command (known findings aside)")
    return common.EXIT_VIOLATION if bad else common.EXIT_OK
