"""C02 — Python wins: code whose names are all bound runs as Python, never as a command."""

from __future__ import annotations

import ast
import builtins
import io
import json
import os
import sys

from .. import common
from ..codec import Sym, some

ID = "C02"
LEVEL = "proof"
PROPS_MODULES = ["XonshVerif.Props.C02"]
GEN_MODULES = ["XonshVerif.Gen.ExecerOrder"]
TECHNIQUE = (
    "Lean 4 proof (structural induction over a mutually inductive Python mini-AST: a simulation invariant between the property's "
    "lexical binding rule and a visitor-by-visitor model of CtxAwareTransformer's context stack; translated control skeleton of "
    "Execer.exec/eval/compile with a decidable parse-before-run obligation) + differential correspondence of generated programs "
    "through the real Execer.compile/parse (decision per statement), the real Execer.exec against builtin exec, and syntax-error inputs"
)
LEVEL_TEXT = (
    "proof: HEADLINE C02_python_wins_repaired - for EVERY program (any nesting, scope depth, length), every set of builtins and session "
    "names: a statement all of whose reads are defined (a builtin, a session name, or bound earlier in an enclosing scope of the source "
    "by assignment incl. unpacking, import incl. dotted, def, class, for, with, except, walrus, global, a parameter; lambda parameters "
    "and comprehension variables inside their expression; `del` unbinds in the scope it is in, at module level also the session's "
    "variable) is NEVER offered to command interpretation, with no side condition. It is a theorem about the transformer as it is "
    "now: a visitor-by-visitor model of CtxAwareTransformer (context stack, ctxadd / ctxupdate / ctxremove, contexts[1] for global, "
    "BoolOp/UnaryOp-only descent, comprehension / lambda contexts, statement-entry walrus record, gather_load_store_names with "
    "names -= store, is_in_scope, leftmostname / gather_names, the bare-builtin rewrite with the user_names shield), one verdict per "
    "is_in_scope test, proved by structural induction over the mutually inductive AST with a level-by-level simulation invariant "
    "between the property's scopes and the context stack. The nine mechanisms that made this false (dotted import, walrus outside "
    "generic_visit, lambda parameters, comprehension variables, nested unpacking targets, del of a builtin-named session variable, "
    "except-name struck by a del in the try body; for the del clause: session record surviving del, del of tuple/list targets) were "
    "found by this check, have one Lean counterexample each against the earlier code (C02_cex_*, model variant Fixes.none), and are "
    "repaired in /repo (nine fix commits, `fixed: <hash>` in known_findings.json; their witnesses must pass on every run). The model "
    "variant tied to the code is chosen per mechanism by replaying those witnesses (all nine repairs on = Fixes.all); "
    "C02_python_wins_gen is the same theorem for ANY subset of repairs under the syntactic guards of the unrepaired mechanisms "
    "(C02_python_wins_partial = none repaired). C02_user_name_shield (a user-bound bare name is never read from builtins), "
    "C02_store_same_stmt, C02_del_returns (after `del x` of a name recorded once, through ANY statements that do not record x, a line "
    "reading x is offered again), C02_scope_pop (+_class, _offers: what only a def / class body records is gone after it, at any depth). "
    "C02_raise_wrapper_pure: phase 3 (_SubprocChainRaiseWrapper, hand model) returns every tree without a subprocess helper below it "
    "unchanged - a pure-Python and/or is never wrapped in subproc_check_boolop, whatever commands stand elsewhere in the input. "
    "C02_parse_before_exec: on every path of Execer.exec / eval (skeleton regenerated from the source every run) builtin exec / "
    "eval is applied only to code compiled from the whole input. Tie: generated programs through the real Execer.compile/parse "
    "(decision per statement, 0 disagreements with the model; every statement whose reads are all bound must be, location-free, the very "
    "tree ast.parse builds), the real Execer.exec against builtin exec - also after a command that failed without raising (operation log, namespace, "
    "output), and malformed inputs (nothing runs)."
)
LEVEL_NOTE = (
    "Trusted: Lean kernel + standard axioms; the harness's printer (checked on every program by reading the source back through "
    "CPython's parser) and its reading of the transformed tree; translator/c02.py (skeleton of three methods). Not modelled: whether "
    "try_subproc_toks' re-parse of an offered node succeeds (lexer; C03) - hence `converted => offered` and equality only for "
    "expression statements that are valid command text; the context-free phase (a line CPython accepts and xonsh's grammar rejects is "
    "retried as a command: C01's matter, one known finding); `exactly Python's meaning` of kept code is observed by differential "
    "execution, not proved; match captures, `from x import *`, nonlocal, type parameters, async forms are outside the binder list; "
    "$XONSH_BUILTINS_TO_CMD (opt-in `commands win` switch) is fixed to its default False."
)

# ------------------------------------------------------------------------------------------------ names
# index = the model's Name.  Real command names, Python builtins, xonsh's additions to `builtins`, module names, fresh identifiers.
POOL = [
    "ls", "echo", "cat", "grep", "l", "a", "la",          # commands and flag-like words
    "id", "print", "len", "zip", "dir", "sorted",         # builtins (id / zip / dir are commands too)
    "aliases", "events",                                  # put into `builtins` by XSH.load
    "os", "json",                                         # modules
    "x", "y", "n", "q", "foo", "v", "w",                  # fresh identifiers
    "sep", "path",                                        # fresh identifiers that are also attributes of `os`
]
IDX = {n: i for i, n in enumerate(POOL)}
ATTRS = ["path", "sep", "real", "foo"]
FIX_NAMES = ["dotted", "walrus", "lam", "comp", "delB", "nested", "delSeq", "delSess", "handler"]
# finding key per repaired mechanism
FIX_KEY = {
    "dotted": "dotted-import-records-dotted-string",
    "walrus": "walrus-outside-generic-visit-not-recorded",
    "lam": "lambda-parameters-not-in-scope",
    "comp": "comprehension-variable-not-in-scope-for-operands",
    "delB": "del-strikes-builtin-from-root-context",
    "nested": "nested-unpacking-target-records-first-name-only",
    "delSeq": "del-of-tuple-or-list-target-ignored",
    "delSess": "del-leaves-session-record",
    "handler": "except-name-struck-by-del-inside-try",
}

BINOPS = ["-", "|", "+", "*", ">>", "&", "/", "%"]
BINPREC = {"|": 7, "&": 9, ">>": 10, "+": 11, "-": 11, "*": 12, "/": 12, "%": 12}
CMPOPS = ["<", ">", "==", "!=", "in", "is", "<="]
KIND = {"attr": 0, "call": 1, "binop": 2, "compare": 3, "tuple": 4, "subscript": 5, "ifexp": 6, "fstr": 7, "dict": 8, "star": 9}


# ------------------------------------------------------------------------------------------------ mini-AST (python side)
# expressions:  ("n", i) ("k", ell, text) ("o", kind, [cs], hint) ("b", op, [vs]) ("u", op, e) ("l", [ps], body)
#               ("c", ckind, elt, [tgts], iter, [conds]) ("w", i, v)
def sx_e(e):
    t = e[0]
    if t == "n":
        return [Sym("n"), e[1]]
    if t == "k":
        return [Sym("k"), bool(e[1])]
    if t == "o":
        return [Sym("o"), KIND[e[1]], [sx_e(c) for c in e[2]]]
    if t == "b":
        return [Sym("b"), [sx_e(c) for c in e[2]]]
    if t == "u":
        return [Sym("u"), sx_e(e[2])]
    if t == "l":
        return [Sym("l"), list(e[1]), sx_e(e[2])]
    if t == "c":
        return [Sym("c"), sx_e(e[2]), list(e[3]), sx_e(e[4]), [sx_e(c) for c in e[5]]]
    if t == "w":
        return [Sym("w"), e[1], sx_e(e[2])]
    raise ValueError(e)


def sx_t(t):
    if t[0] in ("n", "a", "s"):
        return [Sym(t[0]), t[1]]
    return [Sym("q"), bool(t[1]), [sx_t(x) for x in t[2]]]


def sx_s(s):
    k = s[0]
    sid = s[1]
    if k == "expr":
        return [Sym(k), sid, sx_e(s[2])]
    if k == "assign":
        return [Sym(k), sid, [sx_t(t) for t in s[2]], sx_e(s[3])]
    if k == "ann":
        return [Sym(k), sid, sx_t(s[2]), sx_e(s[3]), [sx_e(v) for v in s[4]]]
    if k == "aug":
        return [Sym(k), sid, sx_t(s[2]), sx_e(s[4])]
    if k in ("imp", "impf"):
        return [Sym(k), sid, [[h, bool(d), None if a is None else some(a)] for (h, d, a, _txt) in s[2]]]
    if k == "def":
        return [Sym(k), sid, s[2], list(s[3]), [sx_e(e) for e in s[4]], sx_b(s[5]), [sx_e(e) for e in s[6]]]
    if k == "cls":
        return [Sym(k), sid, s[2], [sx_e(e) for e in s[3]], sx_b(s[4]), [sx_e(e) for e in s[5]]]
    if k == "for":
        return [Sym(k), sid, sx_t(s[2]), sx_e(s[3]), sx_b(s[4]), sx_b(s[5])]
    if k in ("while", "if"):
        return [Sym(k), sid, sx_e(s[2]), sx_b(s[3]), sx_b(s[4])]
    if k == "with":
        return [Sym(k), sid, [sx_e(c) for c, _ in s[2]], [sx_t(t) for _, t in s[2] if t is not None], sx_b(s[3])]
    if k == "try":
        hs = [[h[0], [sx_e(e) for e in h[1]], None if h[2] is None else some(h[2]), sx_b(h[3])] for h in s[3]]
        return [Sym(k), sid, sx_b(s[2]), hs, sx_b(s[4]), sx_b(s[5])]
    if k == "global":
        return [Sym(k), sid, list(s[2])]
    if k == "del":
        return [Sym(k), sid, list(s[2]), list(s[3])]
    if k == "ret":
        return [Sym(k), sid, [sx_e(e) for e in s[3]]]
    if k == "pass":
        return [Sym(k), sid]
    raise ValueError(s)


def sx_b(b):
    return [sx_s(s) for s in b]


# ------------------------------------------------------------------------------------------------ printing
def P(e, need=0):
    """source text of an expression, parenthesised when its precedence is below `need`"""
    txt, prec = _p(e)
    return f"({txt})" if prec < need else txt


def _p(e):
    t = e[0]
    if t == "n":
        return POOL[e[1]], 16
    if t == "k":
        return e[2], (16 if not e[2][0].isdigit() else 15)
    if t == "b":
        op, vs = e[1], e[2]
        pr = 3 if op == "or" else 4
        return f" {op} ".join(P(v, pr + 1) for v in vs), pr
    if t == "u":
        op = e[1]
        if op == "not":
            return "not " + P(e[2], 5), 5
        return op + P(e[2], 13), 13
    if t == "l":
        return "lambda" + (" " + ", ".join(POOL[p] for p in e[1]) if e[1] else "") + ": " + P(e[2], 2), 1
    if t == "w":
        return f"({POOL[e[1]]} := {P(e[2], 2)})", 16
    if t == "c":
        ck, elt, tg, it, conds = e[1], e[2], e[3], e[4], e[5]
        tail = f" for {', '.join(POOL[x] for x in tg)} in {P(it, 3)}" + "".join(f" if {P(c, 3)}" for c in conds)
        if ck == "dict":
            body = f"{P(elt[2][0], 2)}: {P(elt[2][1], 2)}"
            return "{" + body + tail + "}", 16
        body = P(elt, 2)
        o, c = {"list": "[]", "set": "{}", "gen": "()"}[ck]
        return o + body + tail + c, 16
    kind, cs, h = e[1], e[2], e[3]
    if kind == "attr":
        return f"{P(cs[0], 16)}.{h}", 16
    if kind == "call":
        nkw = len(h)
        pos = cs[1 : len(cs) - nkw]
        kws = cs[len(cs) - nkw :]
        args = [P(a, 2) for a in pos] + [f"{k}={P(v, 2)}" for k, v in zip(h, kws)]
        return f"{P(cs[0], 16)}({', '.join(args)})", 16
    if kind == "binop":
        pr = BINPREC[h[0]]
        sp = h[1] if len(h) > 1 else " "
        return f"{P(cs[0], pr)} {h[0]}{sp}{P(cs[1], pr + 1)}", pr
    if kind == "compare":
        out = P(cs[0], 7)
        for op, c in zip(h, cs[1:]):
            out += f" {op} {P(c, 7)}"
        return out, 6
    if kind == "tuple":
        o, c = {"tuple": "()", "list": "[]", "set": "{}"}[h]
        inner = ", ".join(P(x, 2) for x in cs)
        if h == "tuple" and len(cs) == 1:
            inner += ","
        return o + inner + c, 16
    if kind == "subscript":
        return f"{P(cs[0], 16)}[{P(cs[1], 2)}]", 16
    if kind == "ifexp":
        return f"{P(cs[1], 3)} if {P(cs[0], 3)} else {P(cs[2], 2)}", 2
    if kind == "fstr":
        return "f'" + "".join("{" + P(c, 3) + "}" for c in cs) + "'", 16
    if kind == "dict":
        n = len(cs) // 2
        return "{" + ", ".join(f"{P(k, 2)}: {P(v, 2)}" for k, v in zip(cs[:n], cs[n:])) + "}", 16
    if kind == "star":
        return "*" + P(cs[0], 7), 0
    raise ValueError(e)


def PT(t, top=False, bare_ok=True):
    k = t[0]
    if k == "n":
        return POOL[t[1]]
    if k == "a":
        return POOL[t[1]] + t[2]
    if k == "s":
        return "*" + POOL[t[1]]
    inner = ", ".join(PT(x) for x in t[2])
    if t[1]:
        return "[" + inner + "]"
    if len(t[2]) == 1:
        inner += ","
    return inner if (top and t[2] and bare_ok) else "(" + inner + ")"


def src_block(b, ind, out, lines):
    for s in b:
        src_stmt(s, ind, out, lines)


def src_stmt(s, ind, out, lines):
    k, sid = s[0], s[1]
    pad = "    " * ind

    def emit(txt):
        lines.setdefault(sid, []).append(len(out) + 1)
        out.append(pad + txt)

    if k == "expr":
        emit(P(s[2]))
    elif k == "assign":
        # xonsh's grammar has no bare starred tuple in a chained assignment (`a, *b = c = d`; a C01 matter): parenthesise there
        emit(" = ".join(PT(t, top=True, bare_ok=len(s[2]) == 1 or "'s'" not in repr(t)) for t in s[2]) + " = " + P(s[3], 1))
    elif k == "ann":
        emit(f"{PT(s[2])}: {P(s[3], 3)}" + (f" = {P(s[4][0], 1)}" if s[4] else ""))
    elif k == "aug":
        emit(f"{PT(s[2])} {s[3]}= {P(s[4], 1)}")
    elif k == "imp":
        emit("import " + ", ".join(txt for (_h, _d, _a, txt) in s[2]))
    elif k == "impf":
        emit(f"from {s[3]} import " + ", ".join(txt for (_h, _d, _a, txt) in s[2]))
    elif k == "def":
        for d in s[6]:
            emit("@" + P(d, 3))
        ps = list(s[3])
        nd = len(s[4])
        npo, nar, va, nkw, kw = s[7] if len(s) > 7 and s[7] else (0, len(ps), False, 0, False)
        pos = [POOL[p] for p in ps[: npo + nar]]
        for i, d in enumerate(s[4]):
            j = npo + nar - nd + i
            pos[j] = f"{pos[j]}={P(d, 2)}"
        parts = pos[:npo] + (["/"] if npo else []) + pos[npo:]
        rest = ps[npo + nar :]
        if va:
            parts.append("*" + POOL[rest[0]])
            rest = rest[1:]
        elif nkw:
            parts.append("*")
        parts += [POOL[p] for p in rest[:nkw]]
        if kw:
            parts.append("**" + POOL[rest[nkw]])
        emit(f"def {POOL[s[2]]}({', '.join(parts)}):")
        src_block(s[5], ind + 1, out, lines)
    elif k == "cls":
        for d in s[5]:
            emit("@" + P(d, 3))
        emit(f"class {POOL[s[2]]}" + (f"({', '.join(P(b, 2) for b in s[3])})" if s[3] else "") + ":")
        src_block(s[4], ind + 1, out, lines)
    elif k == "for":
        # (`for *a, in x:` is mis-parsed by xonsh — a C01 matter: parenthesise one-element targets)
        emit(f"for {PT(s[2], top=True, bare_ok=not (s[2][0] == 'q' and len(s[2][2]) == 1))} in {P(s[3], 2)}:")
        src_block(s[4], ind + 1, out, lines)
        if s[5]:
            out.append(pad + "else:")
            src_block(s[5], ind + 1, out, lines)
    elif k in ("while", "if"):
        emit(f"{k} {P(s[2], 1)}:")
        src_block(s[3], ind + 1, out, lines)
        if s[4]:
            out.append(pad + "else:")
            src_block(s[4], ind + 1, out, lines)
    elif k == "with":
        emit("with " + ", ".join(P(c, 3) + (f" as {PT(t)}" if t is not None else "") for c, t in s[2]) + ":")
        src_block(s[3], ind + 1, out, lines)
    elif k == "try":
        emit("try:")
        src_block(s[2], ind + 1, out, lines)
        for h in s[3]:
            lines.setdefault(h[0], []).append(len(out) + 1)
            out.append(pad + "except" + (" " + P(h[1][0], 3) if h[1] else "") + (f" as {POOL[h[2]]}" if h[2] is not None else "") + ":")
            src_block(h[3], ind + 1, out, lines)
        if s[4]:
            out.append(pad + "else:")
            src_block(s[4], ind + 1, out, lines)
        if s[5]:
            out.append(pad + "finally:")
            src_block(s[5], ind + 1, out, lines)
    elif k == "global":
        emit("global " + ", ".join(POOL[x] for x in s[2]))
    elif k == "del":
        emit("del " + s[4])
    elif k == "ret":
        emit(s[2] + (" " + P(s[3][0], 1) if s[3] else ""))
    elif k == "pass":
        emit("pass")
    else:
        raise ValueError(s)


def to_source(prog):
    out, lines = [], {}
    src_block(prog, 0, out, lines)
    return "\n".join(out) + "\n", lines


# ------------------------------------------------------------------------------------------------ python ast -> mini-AST
class Unsupported(Exception):
    pass


def _nm(s):
    if s not in IDX:
        raise Unsupported(f"name {s}")
    return IDX[s]


def abs_e(n):
    """Python `ast` expression -> mini-AST (print hints dropped: use only through sx_e)"""
    if isinstance(n, ast.Name):
        return ("n", _nm(n.id))
    if isinstance(n, ast.Constant):
        return ("k", n.value is ..., "0")
    if isinstance(n, ast.BoolOp):
        return ("b", "", [abs_e(v) for v in n.values])
    if isinstance(n, ast.UnaryOp):
        return ("u", "", abs_e(n.operand))
    if isinstance(n, ast.Lambda):
        a = n.args
        if a.defaults or a.kw_defaults or a.vararg or a.kwarg or a.kwonlyargs or a.posonlyargs:
            raise Unsupported("lambda args")
        return ("l", [_nm(x.arg) for x in a.args], abs_e(n.body))
    if isinstance(n, ast.NamedExpr):
        return ("w", _nm(n.target.id), abs_e(n.value))
    if isinstance(n, (ast.ListComp, ast.SetComp, ast.GeneratorExp, ast.DictComp)):
        if len(n.generators) != 1 or n.generators[0].is_async:
            raise Unsupported("generators")
        g = n.generators[0]
        tg = [abs_t(g.target)]
        names = []

        def flat(t):
            if t[0] == "n":
                names.append(t[1])
            elif t[0] == "q":
                for x in t[2]:
                    flat(x)
            else:
                raise Unsupported("comprehension target")

        flat(tg[0])
        elt = ("o", "dict", [abs_e(n.key), abs_e(n.value)], None) if isinstance(n, ast.DictComp) else abs_e(n.elt)
        return ("c", "", elt, names, abs_e(g.iter), [abs_e(c) for c in g.ifs])
    kinds = {ast.Attribute: "attr", ast.Call: "call", ast.BinOp: "binop", ast.Compare: "compare", ast.Tuple: "tuple", ast.List: "tuple",
             ast.Set: "tuple", ast.Subscript: "subscript", ast.IfExp: "ifexp", ast.JoinedStr: "fstr", ast.Dict: "dict", ast.Starred: "star"}
    for cls, kd in kinds.items():
        if isinstance(n, cls):
            return ("o", kd, _children(n), None)
    raise Unsupported(type(n).__name__)


def _children(n):
    """expression children in `ast.iter_fields` order, helper nodes (keyword, FormattedValue, Slice) flattened"""
    out = []
    for _f, v in ast.iter_fields(n):
        vs = v if isinstance(v, list) else [v]
        for c in vs:
            if isinstance(c, (ast.keyword, ast.FormattedValue, ast.Slice)):
                for _g, w in ast.iter_fields(c):
                    for d in w if isinstance(w, list) else [w]:
                        if isinstance(d, ast.expr):
                            if isinstance(d, ast.JoinedStr) and not d.values:
                                continue
                            out.append(abs_e(d))
            elif isinstance(c, ast.expr):
                out.append(abs_e(c))
            elif c is None and isinstance(n, ast.Dict):
                raise Unsupported("dict unpacking")
    return out


def abs_t(t):
    if isinstance(t, ast.Name):
        return ("n", _nm(t.id))
    if isinstance(t, ast.Starred) and isinstance(t.value, ast.Name):
        return ("s", _nm(t.value.id))
    if isinstance(t, (ast.Tuple, ast.List)):
        return ("q", isinstance(t, ast.List), [abs_t(x) for x in t.elts])
    if isinstance(t, (ast.Attribute, ast.Subscript)):
        b = t.value
        while isinstance(b, (ast.Attribute, ast.Subscript)):
            b = b.value
        if isinstance(b, ast.Name) and (isinstance(t, ast.Attribute) or isinstance(t.slice, ast.Constant)):
            return ("a", _nm(b.id), "")
    raise Unsupported("target")


def _simple_cmd(e, d):
    """a small expression over bare names only (`ls -l`, `a | b`, `x and not y`, `a.b`): valid command text when offered"""
    if e[0] == "n":
        return True
    if d >= 2:
        return False
    if e[0] == "b":
        return all(_simple_cmd(v, d + 1) for v in e[2])
    if e[0] == "u":
        return _simple_cmd(e[2], d + 1)
    if e[0] == "o" and e[1] in ("binop", "compare", "attr"):
        return all(_simple_cmd(c, d + 1) for c in e[2])
    return False


class Abs:
    """python module -> mini-AST with statement ids in pre-order (the numbering the generator uses)"""

    def __init__(self):
        self.k = 0
        self.lines = {}

    def sid(self, node=None):
        self.k += 1
        if node is not None:
            self.lines[self.k - 1] = [node.lineno]
        return self.k - 1

    def block(self, body):
        return [self.stmt(s) for s in body]

    def stmt(self, s):
        sid = self.sid(s)
        if isinstance(s, ast.Expr):
            e = abs_e(s.value)
            return ("expr", sid, e, _simple_cmd(e, 0))
        if isinstance(s, ast.Assign):
            return ("assign", sid, [abs_t(t) for t in s.targets], abs_e(s.value))
        if isinstance(s, ast.AnnAssign):
            return ("ann", sid, abs_t(s.target), abs_e(s.annotation), [abs_e(s.value)] if s.value is not None else [])
        if isinstance(s, ast.AugAssign):
            return ("aug", sid, abs_t(s.target), "", abs_e(s.value))
        if isinstance(s, ast.Import):
            return ("imp", sid, [(_nm(a.name.split(".")[0]), "." in a.name, None if a.asname is None else _nm(a.asname), "") for a in s.names])
        if isinstance(s, ast.ImportFrom):
            return ("impf", sid, [(_nm(a.name), False, None if a.asname is None else _nm(a.asname), "") for a in s.names], "")
        if isinstance(s, ast.FunctionDef):
            a = s.args
            if a.kw_defaults and any(d is not None for d in a.kw_defaults):
                raise Unsupported("kw defaults")
            ps = [x.arg for x in a.posonlyargs + a.args]
            if a.vararg:
                ps.append(a.vararg.arg)
            ps += [x.arg for x in a.kwonlyargs]
            if a.kwarg:
                ps.append(a.kwarg.arg)
            return ("def", sid, _nm(s.name), [_nm(p) for p in ps], [abs_e(d) for d in a.defaults], self.block(s.body), [abs_e(d) for d in s.decorator_list])
        if isinstance(s, ast.ClassDef):
            if s.keywords:
                raise Unsupported("class keywords")
            return ("cls", sid, _nm(s.name), [abs_e(b) for b in s.bases], self.block(s.body), [abs_e(d) for d in s.decorator_list])
        if isinstance(s, ast.For):
            return ("for", sid, abs_t(s.target), abs_e(s.iter), self.block(s.body), self.block(s.orelse))
        if isinstance(s, (ast.While, ast.If)):
            return ("while" if isinstance(s, ast.While) else "if", sid, abs_e(s.test), self.block(s.body), self.block(s.orelse))
        if isinstance(s, ast.With):
            return ("with", sid, [(abs_e(i.context_expr), None if i.optional_vars is None else abs_t(i.optional_vars)) for i in s.items], self.block(s.body))
        if isinstance(s, ast.Try):
            body = self.block(s.body)
            hs = []
            for h in s.handlers:
                hid = self.sid(h)
                hs.append((hid, [abs_e(h.type)] if h.type is not None else [], None if h.name is None else _nm(h.name), self.block(h.body)))
            return ("try", sid, body, hs, self.block(s.orelse), self.block(s.finalbody))
        if isinstance(s, ast.Global):
            return ("global", sid, [_nm(x) for x in s.names])
        if isinstance(s, ast.Delete):
            names, nested = [], []

            def flat(t):
                if isinstance(t, ast.Name):
                    nested.append(_nm(t.id))
                elif isinstance(t, (ast.Tuple, ast.List)):
                    for x in t.elts:
                        flat(x)
                else:
                    raise Unsupported("del target")

            for t in s.targets:
                if isinstance(t, ast.Name):
                    names.append(_nm(t.id))
                else:
                    flat(t)
            return ("del", sid, names, nested, "")
        if isinstance(s, ast.Return):
            return ("ret", sid, "return", [abs_e(s.value)] if s.value is not None else [])
        if isinstance(s, ast.Raise) and s.cause is None:
            return ("ret", sid, "raise", [abs_e(s.exc)] if s.exc is not None else [])
        if isinstance(s, ast.Assert) and s.msg is None:
            return ("ret", sid, "assert", [abs_e(s.test)])
        if isinstance(s, ast.Pass):
            return ("pass", sid)
        raise Unsupported(type(s).__name__)


def abstract(src, with_lines=False):
    a = Abs()
    prog = a.block(ast.parse(src).body)
    return (prog, a.lines) if with_lines else prog


# ------------------------------------------------------------------------------------------------ generation
class Gen:
    def __init__(self, rng, runnable=False):
        self.r = rng
        self.k = 0
        self.runnable = runnable  # programs for the exec stream: importable modules, calls of the functions defined, few raise / assert
        self.pending = []
        self.after_top = []
        self.budget = 0

    def sid(self):
        self.k += 1
        return self.k - 1

    # -- names
    def nm(self, env, bound_bias=0.65):
        r = self.r
        if env["bound"] and r.random() < bound_bias:
            return r.choice(sorted(env["bound"]))
        return r.randrange(len(POOL))

    def newname(self, env):
        r = self.r
        if r.random() < 0.25 and env["bound"]:
            return r.choice(sorted(env["bound"]))
        return r.randrange(len(POOL))

    # -- expressions
    def atom(self, env):
        r = self.r
        if r.random() < 0.8:
            return ("n", self.nm(env))
        return ("k", False, r.choice(["0", "1", "20", "'s'", "None"]))

    def expr(self, env, d=0):
        r = self.r
        if d >= 3 or r.random() < 0.30:
            return self.atom(env)
        k = r.random()
        sub = lambda: self.expr(env, d + 1)  # noqa: E731
        if k < 0.10:
            return ("o", "attr", [sub()], r.choice(ATTRS))
        if k < 0.24:
            npos, nkw = r.randint(0, 2), r.choice([0, 0, 1])
            return ("o", "call", [("n", self.nm(env))] + [sub() for _ in range(npos + nkw)], ["key", "k"][:nkw])
        if k < 0.36:
            return ("o", "binop", [sub(), sub()], (r.choice(BINOPS),))
        if k < 0.44:
            m = r.choice([1, 1, 2])
            return ("o", "compare", [sub() for _ in range(m + 1)], [r.choice(CMPOPS) for _ in range(m)])
        if k < 0.50:
            elts = [sub() for _ in range(r.randint(0, 3))]
            shape = r.choice(["tuple", "list", "tuple"])
            if len(elts) == 1 and elts[0][0] == "c" and elts[0][1] == "gen":
                shape = "tuple"  # (`[(x for x in y)]` is read by xonsh as a list comprehension — a C01 matter)
            return ("o", "tuple", elts, shape)
        if k < 0.54:
            return ("o", "subscript", [sub(), sub()], None)
        if k < 0.58:
            return ("o", "ifexp", [sub(), sub(), sub()], None)
        if k < 0.61:
            return ("o", "fstr", [self.fexpr(env) for _ in range(r.randint(1, 2))], None)
        if k < 0.64:
            n = r.randint(1, 2)
            return ("o", "dict", [self.atom(env) for _ in range(n)] + [sub() for _ in range(n)], None)
        if k < 0.78:
            return ("b", r.choice(["and", "or"]), [sub() for _ in range(r.choice([2, 2, 3]))])
        if k < 0.87:
            return ("u", r.choice(["not", "not", "-", "~", "+"]), sub())
        if k < 0.91:
            ps = [self.newname(env) for _ in range(r.randint(0, 2))]
            ps = list(dict.fromkeys(ps))
            env2 = dict(env, bound=env["bound"] | set(ps), inlambda=True)
            return ("l", ps, self.expr(env2, d + 1))
        if k < 0.95:
            # a walrus may sit in the element and in the conditions of a comprehension (PEP 572: it binds in the ENCLOSING scope), not
            # in its iterable, and may not rebind a loop variable
            tg = list(dict.fromkeys(self.newname(env) for _ in range(r.choice([1, 1, 2]))))
            env2 = dict(env, bound=env["bound"] | set(tg), compvars=env.get("compvars", frozenset()) | set(tg))
            it = self.expr(dict(env, nowalrus=True), d + 1)
            conds = [self.expr(env2, d + 1) for _ in range(r.choice([0, 0, 1]))]
            return ("c", r.choice(["list", "gen", "set", "list"]), self.expr(env2, d + 1), tg, it, conds)
        if env.get("nowalrus"):
            return self.atom(env)
        x = self.newname(env)
        if x in env.get("compvars", ()):
            return self.atom(env)
        v = self.expr(env, d + 1)
        if not env.get("inlambda"):
            env["walrus"].add(x)  # (a walrus inside a lambda is local to the lambda)
        return ("w", x, v)

    def comp_walrus(self, env):
        """`any((last := v) > 3 for v in data)` and relatives: the walrus target is bound in the enclosing scope afterwards"""
        r = self.r
        x, v = self.newname(env), self.newname(env)
        if x == v:
            return self.atom(env)
        w = ("w", x, ("n", v))
        body = r.choice([("o", "compare", [w, ("k", False, "3")], [">"]), w, ("b", "and", [("n", v), w]), ("o", "call", [("n", self.nm(env)), w], [])])
        conds = []
        if r.random() < 0.3:
            body, conds = ("n", v), [("o", "compare", [w, ("k", False, "3")], [">"])]
        c = ("c", r.choice(["gen", "list", "set"]), body, [v], self.atom(env), conds)
        env["walrus"].add(x)
        return ("o", "call", [("n", self.nm(env)), c], []) if c[1] == "gen" else c

    def fexpr(self, env):
        r = self.r
        k = r.random()
        a = ("n", self.nm(env))
        if k < 0.5:
            return a
        if k < 0.7:
            return ("o", "attr", [a], r.choice(ATTRS))
        if k < 0.85:
            return ("b", r.choice(["and", "or"]), [a, ("n", self.nm(env))])
        return ("o", "binop", [a, ("n", self.nm(env))], ("+",))

    def read_of(self, env, x):
        """a command-looking expression whose first name is x"""
        r = self.r
        a, b = ("n", x), ("n", self.nm(env, 0.5))
        return r.choice([a, ("o", "binop", [a, b], ("-", "")), ("u", "not", a), ("b", "and", [a, b]), ("o", "binop", [a, b], ("|",)), ("o", "attr", [a], "real")])

    def cmdlike(self, env):
        """expression statements that are also valid command text"""
        r = self.r
        a, b, c = (("n", self.nm(env, 0.5)) for _ in range(3))
        k = r.randrange(16)
        if k == 0:
            return a
        if k in (1, 2, 3):
            return ("o", "binop", [a, b], ("-", ""))  # `ls -l`
        if k == 4:
            return ("o", "binop", [("o", "binop", [a, b], ("-", "")), c], ("-", ""))  # `ls -l -a`
        if k == 5:
            return ("o", "binop", [a, b], ("|",))
        if k == 6:
            return ("b", "and", [a, b])
        if k == 7:
            return ("b", "or", [a, b])
        if k == 8:
            return ("u", "not", a)
        if k == 9:
            return ("o", "compare", [a, b], [r.choice([">", "<", "=="])])
        if k == 10:
            return ("o", "attr", [a], r.choice(ATTRS))
        if k == 11:
            return ("b", "and", [a, ("u", "not", b)])
        if k == 12:
            return ("b", r.choice(["and", "or"]), [("o", "binop", [a, b], ("-", "")), c])
        if k == 13:
            return ("o", "binop", [a, b], (r.choice(["*", "+", "/", "%", "&"]),))
        if k == 14:
            return ("b", "or", [("b", "and", [a, b]), c])
        return ("u", "-", a)

    # -- targets
    def tgt(self, env, allow_seq=True, d=0):
        r = self.r
        k = r.random()
        if k < 0.6 or d >= 2:
            return ("n", self.newname(env))
        if k < 0.72:
            return ("a", self.nm(env), r.choice([".real", "[0]", ".foo.sep"]))
        if not allow_seq:
            return ("n", self.newname(env))
        n = r.randint(1, 3)
        elts = [self.tgt(env, True, d + 1) for _ in range(n)]
        if r.random() < 0.2:
            i = r.randrange(n)
            elts[i] = ("s", self.newname(env))
        return ("q", r.random() < 0.25, elts)

    @staticmethod
    def tbinds(t):
        if t[0] in ("n", "s"):
            return [t[1]]
        if t[0] == "a":
            return []
        return [x for e in t[2] for x in Gen.tbinds(e)]

    # -- statements
    def block(self, env, depth, n=None):
        r = self.r
        n = n if n is not None else r.randint(1, 3)
        out = []
        for _ in range(n):
            if self.budget <= 0:
                break
            out.append(self.stmt(env, depth))
            while self.pending:  # (runnable programs) call the function that was just defined
                self.budget -= 1
                out.append(("expr", self.sid(), self.pending.pop(), False))
        if not out:
            out.append(("pass", self.sid()))
        return out

    def bind(self, env, names):
        env["bound"] |= set(names)
        env["frame"] |= set(names)

    def flush_walrus(self, env):
        self.bind(env, env["walrus"])
        env["walrus"].clear()

    def stmt(self, env, depth):
        r = self.r
        self.budget -= 1
        sid = self.sid()
        k = r.random()
        compound_ok = depth < 4 and self.budget > 0
        if k < 0.30 or (not compound_ok and k > 0.62):
            cmd = r.random() < 0.7
            e = self.cmdlike(env) if cmd else self.expr(env)
            self.flush_walrus(env)
            return ("expr", sid, e, cmd)
        if k < 0.335 and len(env["bound"]) >= 2:
            # a pure-Python and / or over bound names — `ok = a or b`, `if a and b:` style — next to command lines
            bs = sorted(env["bound"])
            e = ("b", r.choice(["and", "or"]), [("n", r.choice(bs)) for _ in range(r.choice([2, 2, 3]))])
            if r.random() < 0.5:
                t = ("n", self.newname(env))
                self.bind(env, [t[1]])
                return ("assign", sid, [t], e)
            return ("expr", sid, e, True)
        if k < 0.345:
            e = self.comp_walrus(env)
            self.flush_walrus(env)
            return ("expr", sid, e, False) if r.random() < 0.5 else ("assign", sid, [("n", self.newname(env))], e)
        if k < 0.42:
            tg = [self.tgt(env) for _ in range(r.choice([1, 1, 1, 2]))]
            v = self.expr(env)
            self.flush_walrus(env)
            self.bind(env, [x for t in tg for x in self.tbinds(t)])
            return ("assign", sid, tg, v)
        if k < 0.45:
            t = self.tgt(env, allow_seq=False)
            if self.runnable and t[0] != "n":
                t = ("n", self.newname(env))  # (`x.a: T = v` is mis-compiled by xonsh — a C01 matter)
            ann = ("n", IDX[r.choice(["id", "len", "x", "sorted"])])
            v = [self.expr(env)] if r.random() < 0.7 else []
            self.flush_walrus(env)
            if v:
                self.bind(env, self.tbinds(t))
            return ("ann", sid, t, ann, v)
        if k < 0.48:
            t = self.tgt(env, allow_seq=False)
            v = self.expr(env)
            self.flush_walrus(env)
            return ("aug", sid, t, r.choice(["+", "-", "|"]), v)
        if k < 0.54:
            items = []
            for _ in range(r.choice([1, 1, 2])):
                h = r.choice([IDX["os"], IDX["json"]]) if self.runnable else self.newname(env)
                dotted = r.random() < 0.4
                asn = self.newname(env) if r.random() < 0.35 else None
                suffix = (".decoder" if POOL[h] == "json" else ".path") if dotted else ""
                items.append((h, dotted, asn, POOL[h] + suffix + (f" as {POOL[asn]}" if asn is not None else "")))
            self.bind(env, [a if a is not None else h for (h, d, a, _t) in items])
            return ("imp", sid, items)
        if k < 0.58:
            items = []
            for _ in range(r.choice([1, 2])):
                h = r.choice([IDX["sep"], IDX["path"]]) if self.runnable else self.newname(env)
                asn = self.newname(env) if r.random() < 0.35 else None
                items.append((h, False, asn, POOL[h] + (f" as {POOL[asn]}" if asn is not None else "")))
            self.bind(env, [a if a is not None else h for (h, d, a, _t) in items])
            return ("impf", sid, items, "os" if self.runnable else r.choice(["os", "os.path", "json"]))
        if k < 0.66:
            # del: mostly of a name this scope bound (Python can execute it), sometimes of anything
            frame = sorted(env["frame"] | (env["sess"] if env["kind"] == "module" else set()))
            pick = lambda: (r.choice(frame) if frame and r.random() < 0.93 else r.randrange(len(POOL)))  # noqa: E731
            if r.random() < 0.8:
                names = list(dict.fromkeys(pick() for _ in range(r.choice([1, 1, 2]))))
                nested, txt = [], ", ".join(POOL[x] for x in names)
            else:
                names = [pick()] if r.random() < 0.4 else []
                nested = list(dict.fromkeys(pick() for _ in range(r.choice([1, 2]))))
                nested = [x for x in nested if x not in names]
                o, c = r.choice(["()", "[]"])
                inner = ", ".join(POOL[x] for x in nested) + ("," if len(nested) == 1 and o == "(" else "")
                txt = ", ".join([POOL[x] for x in names] + [o + inner + c])
                if not nested:
                    txt = ", ".join(POOL[x] for x in names) if names else None
                    if txt is None:
                        names = [pick()]
                        txt = POOL[names[0]]
            for x in names + nested:
                env["bound"].discard(x)
                env["frame"].discard(x)
                if env["kind"] == "module":
                    env["sess"].discard(x)
            return ("del", sid, names, nested, txt)
        if (k < 0.69 or (k < 0.74 and env.get("depth", 0) >= 2)) and env["kind"] == "function":
            # `global` at every function depth; the names are module names from here on: the enclosing scopes read them later
            xs = list(dict.fromkeys(self.newname(env) for _ in range(r.choice([1, 2]))))
            e = env
            while e is not None:
                e["bound"] |= set(xs)
                e = e.get("parent")
            self.after_top += xs  # … and the module level reads them right after the statement that contains the declaration
            return ("global", sid, xs)
        if k < 0.72:
            kind = r.choice(["return", "raise", "assert"]) if env["kind"] == "function" else r.choice(["raise", "assert"])
            if self.runnable and r.random() < 0.85:
                if env["kind"] != "function":
                    return ("pass", sid)
                kind = "return"
            v = [self.expr(env)] if (kind == "assert" or r.random() < 0.8) else []
            self.flush_walrus(env)
            return ("ret", sid, kind, v)
        if not compound_ok:
            return ("pass", sid)
        if k < 0.80:
            f = self.newname(env)
            # every parameter kind, alone and together: positional-only, ordinary (the last ones with defaults), *args, keyword-only, **kwargs
            npo, nar, va, nkw, kw = r.choice([0, 0, 1]), r.randint(0, 2), r.random() < 0.4, r.choice([0, 0, 1, 2]), r.random() < 0.4
            want = npo + nar + int(va) + nkw + int(kw)
            ps = []
            while len(ps) < want:
                x = self.newname(env)
                if x not in ps:
                    ps.append(x)
            nd = r.choice([0, 0, 1]) if npo + nar else 0
            dfl = [self.expr(env, 2) for _ in range(nd)]
            decos = [("n", self.nm(env))] if r.random() < 0.15 else []
            self.flush_walrus(env)
            self.bind(env, [f])
            env2 = {"bound": env["bound"] | set(ps), "frame": set(ps), "kind": "function", "walrus": set(), "sess": env["sess"],
                    "parent": env, "depth": env.get("depth", 0) + 1}
            # the body reads each parameter (of whatever kind) in a line that is also valid command text
            body = []
            for x in ps:
                if self.budget > 0 and r.random() < 0.6:
                    self.budget -= 1
                    body.append(("expr", self.sid(), self.read_of(env2, x), True))
            body += self.block(env2, depth + 1)
            if self.runnable and self.budget > 0 and r.random() < 0.75:
                kwo = ps[npo + nar + int(va) : npo + nar + int(va) + nkw]
                self.pending.append(("o", "call", [("n", f)] + [self.atom(env) for _ in range(npo + nar)] + [self.atom(env) for _ in kwo], [POOL[x] for x in kwo]))
            return ("def", sid, f, ps, dfl, body, decos, (npo, nar, va, nkw, kw))
        if k < 0.85:
            cn = self.newname(env)
            bases = [("n", self.nm(env))] if r.random() < 0.3 else []
            env2 = {"bound": set(env["bound"]), "frame": set(), "kind": "class", "walrus": set(), "sess": env["sess"],
                    "parent": env, "depth": env.get("depth", 0) + 1}
            body = self.block(env2, depth + 1)
            self.bind(env, [cn])
            return ("cls", sid, cn, bases, body, [])
        if k < 0.89:
            t = self.tgt(env)
            it = self.expr(env, 1)
            self.flush_walrus(env)
            self.bind(env, self.tbinds(t))
            body = self.block(env, depth + 1)
            orelse = self.block(env, depth + 1, 1) if r.random() < 0.2 else []
            return ("for", sid, t, it, body, orelse)
        if k < 0.95:
            kind = r.choice(["if", "if", "while"])
            if self.runnable and kind == "while" and env["sess"]:
                test = ("n", r.choice(sorted(env["sess"])))
            elif r.random() < 0.6:
                test = self.expr(env, 1)
            else:
                # the `if (n := f(x)) > 10 and n < 20:` idiom
                wx = self.newname(env)
                test = ("b", "and", [("o", "compare", [("w", wx, self.atom(env)), ("k", False, "10")], [">"]),
                                     r.choice([("n", wx), ("o", "compare", [("n", wx), ("k", False, "20")], ["<"])])])
                env["walrus"].add(wx)
            self.flush_walrus(env)
            body = self.block(env, depth + 1)
            orelse = self.block(env, depth + 1, 1) if r.random() < 0.3 else []
            return (kind, sid, test, body, orelse)
        if k < 0.975:
            items = []
            for _ in range(r.choice([1, 1, 2])):
                c = self.expr(env, 2)
                if c[0] == "o" and c[1] == "tuple":
                    c = ("o", "call", [("n", self.nm(env))], [])  # `with (a, b):` is two items, not a tuple
                t = self.tgt(env) if r.random() < 0.7 else None
                items.append((c, t))
            self.flush_walrus(env)
            self.bind(env, [x for _c, t in items if t is not None for x in self.tbinds(t)])
            return ("with", sid, items, self.block(env, depth + 1))
        body = self.block(env, depth + 1, 1)
        hs = []
        for _ in range(r.choice([1, 1, 2])):
            hid = self.sid()
            ty = [("n", self.nm(env))] if (self.runnable or r.random() < 0.8) else []  # (runnable: nothing may swallow an exception)
            nmh = self.newname(env) if ty and r.random() < 0.7 else None
            if nmh is not None:
                self.bind(env, [nmh])
            hs.append((hid, ty, nmh, self.block(env, depth + 1, 1)))
        orelse = self.block(env, depth + 1, 1) if r.random() < 0.2 else []
        final = self.block(env, depth + 1, 1) if r.random() < 0.2 else []
        if self.runnable and final and final[0][0] == "ret":
            final = [("pass", final[0][1])]  # (`return` in a `finally` swallows exceptions)
        return ("try", sid, body, hs, orelse, final)

    def program(self, sess, nmax=12):
        self.k = 0
        self.budget = self.r.randint(2, nmax)
        env = {"bound": set(sess), "frame": set(), "kind": "module", "walrus": set(), "sess": set(sess)}
        out = []
        self.after_top = []
        while self.budget > 0:
            out.append(self.stmt(env, 0))
            while self.pending:
                self.budget -= 1
                out.append(("expr", self.sid(), self.pending.pop(), False))
            while self.after_top:
                out.append(("expr", self.sid(), self.read_of(env, self.after_top.pop()), True))
        return out


def renumber(prog):
    """statement ids in source pre-order (what `Abs` produces)"""
    k = [0]

    def sid():
        k[0] += 1
        return k[0] - 1

    def blk(b):
        return [st(s) for s in b]

    def st(s):
        i = sid()
        kd = s[0]
        if kd == "def":
            return (kd, i, s[2], s[3], s[4], blk(s[5]), s[6]) + tuple(s[7:])
        if kd == "cls":
            return (kd, i, s[2], s[3], blk(s[4]), s[5])
        if kd == "for":
            return (kd, i, s[2], s[3], blk(s[4]), blk(s[5]))
        if kd in ("while", "if"):
            return (kd, i, s[2], blk(s[3]), blk(s[4]))
        if kd == "with":
            return (kd, i, s[2], blk(s[3]))
        if kd == "try":
            body = blk(s[2])
            hs = []
            for h in s[3]:
                hid = sid()
                hs.append((hid, h[1], h[2], blk(h[3])))
            return (kd, i, body, hs, blk(s[4]), blk(s[5]))
        return (kd, i) + tuple(s[2:])

    return blk(prog)


# ------------------------------------------------------------------------------------------------ the real code
class Real:
    """the real Execer of /repo's working tree with a loaded session (so that `builtins` has `__xonsh__`)"""

    _inst = None

    @classmethod
    def get(cls):
        if cls._inst is None:
            cls._inst = cls()
        return cls._inst

    def __init__(self):
        common.setup_repo_imports()
        from xonsh.built_ins import XSH
        from xonsh.execer import Execer

        self.XSH = XSH
        self.ex = Execer()
        XSH.load(execer=self.ex, inherit_env=False)
        XSH.env["XONSH_BUILTINS_TO_CMD"] = False
        import warnings

        warnings.filterwarnings("ignore", category=SyntaxWarning)
        warnings.filterwarnings("ignore", category=DeprecationWarning)
        self.B = [i for i, n in enumerate(POOL) if hasattr(builtins, n)]

    def tree_via_compile(self, src, sess, local_only=()):
        """Run `Execer.compile` as the shell does (glbs = locs = the session namespace; or, with `local_only`, those session
        names in a separate locals mapping as ExecAlias / macros / execx(locs=…) have them) and return the tree that its
        call to `Execer.parse` produced (captured on the way out; the code under test is not changed)."""
        ex = self.ex
        got = {}
        orig = ex.parse

        def spy(*a, **kw):
            t = orig(*a, **kw)
            got["tree"] = t
            return t

        glbs = {POOL[i]: None for i in sess if i not in local_only}
        locs = glbs if not local_only else {POOL[i]: None for i in sess if i in local_only}
        ex.parse = spy
        try:
            try:
                ex.compile(src, mode="exec", glbs=glbs, locs=locs, filename="<c02>")
            except SyntaxError as e:
                if "tree" not in got:
                    return None, f"SyntaxError: {e}"
            except Exception as e:  # noqa: BLE001
                if "tree" not in got:
                    return None, f"{type(e).__name__}: {e}"
        finally:
            del ex.parse
        return got.get("tree"), None

    def cmd_valid(self, text):
        try:
            self.ex.parser.parse("![" + text.strip() + "]\n", mode="exec")
            return True
        except BaseException:  # noqa: BLE001
            return False


def _is_subproc_call(n):
    return (isinstance(n, ast.Call) and isinstance(n.func, ast.Attribute) and isinstance(n.func.value, ast.Name)
            and n.func.value.id == "__xonsh__" and n.func.attr.startswith("subproc_") and n.func.attr != "subproc_check_boolop")


def _is_builtin_cmd(n):
    return (isinstance(n, ast.Call) and isinstance(n.func, ast.Attribute) and isinstance(n.func.value, ast.Name)
            and n.func.value.id == "__xonsh__" and n.func.attr == "builtin_cmd")


def _own_exprs(node):
    """the expressions that belong to the statement itself (not to statements nested in it)"""
    out = []
    if isinstance(node, ast.ExceptHandler):
        return [node.type] if node.type is not None else []
    for f, v in ast.iter_fields(node):
        if f in ("body", "orelse", "finalbody", "handlers"):
            continue
        for c in v if isinstance(v, list) else [v]:
            if isinstance(c, ast.AST):
                out.append(c)
    return out


class ShapeMismatch(Exception):
    pass


def _norm(n):
    """location-free form of a tree: node types and fields only (`kind` / `type_comment` carry no meaning)"""
    if isinstance(n, ast.AST):
        return (type(n).__name__, [(f, _norm(getattr(n, f, None))) for f in n._fields if f not in ("kind", "type_comment")])
    if isinstance(n, list):
        return [_norm(x) for x in n]
    return repr(n)


def observe(tree, prog, pytree=None):
    """per statement id: was (part of) the statement turned into a subprocess call / a builtin_cmd call; and, against CPython's
    tree of the same source, are the statement's own parts the tree `ast.parse` gives (`same`)"""
    obs = {}
    pynodes = {}
    if pytree is not None:
        a = Abs()

        def pyblk(nodes):
            for n in nodes:
                pyst(n)

        def pyst(n):
            sid = a.sid()
            pynodes[sid] = n
            if isinstance(n, ast.Try):
                pyblk(n.body)
                for h in n.handlers:
                    pynodes[a.sid()] = h
                    pyblk(h.body)
                pyblk(n.orelse)
                pyblk(n.finalbody)
            else:
                for f in ("body", "orelse"):
                    v = getattr(n, f, None)
                    if isinstance(v, list) and v and isinstance(v[0], ast.stmt):
                        pyblk(v)

        pyblk(pytree.body)

    def look(sid, node):
        conv = bcmd = False
        for e in _own_exprs(node):
            for n in ast.walk(e):
                conv = conv or _is_subproc_call(n)
                bcmd = bcmd or _is_builtin_cmd(n)
        o = obs.setdefault(sid, {"conv": False, "bcmd": False, "same": True})
        o["conv"] |= conv
        o["bcmd"] |= bcmd
        if sid in pynodes:
            pn = pynodes[sid]
            o["same"] = type(pn) is type(node) and _norm(_own_exprs(node)) == _norm(_own_exprs(pn))

    def blk(nodes, stmts):
        if len(nodes) != len(stmts):
            raise ShapeMismatch(f"{len(nodes)} statements where the source has {len(stmts)}")
        for n, s in zip(nodes, stmts):
            st(n, s)

    want = {"expr": ast.Expr, "assign": ast.Assign, "ann": ast.AnnAssign, "aug": ast.AugAssign, "imp": ast.Import, "impf": ast.ImportFrom,
            "def": ast.FunctionDef, "cls": ast.ClassDef, "for": ast.For, "while": ast.While, "if": ast.If, "with": ast.With, "try": ast.Try,
            "global": ast.Global, "del": ast.Delete, "ret": (ast.Return, ast.Raise, ast.Assert), "pass": ast.Pass}

    def st(n, s):
        k = s[0]
        if not isinstance(n, want[k]):
            raise ShapeMismatch(f"{type(n).__name__} where the source has `{k}`")
        look(s[1], n)
        if k == "def":
            blk(n.body, s[5])
        elif k == "cls":
            blk(n.body, s[4])
        elif k == "for":
            blk(n.body, s[4])
            blk(n.orelse, s[5])
        elif k in ("while", "if"):
            blk(n.body, s[3])
            blk(n.orelse, s[4])
        elif k == "with":
            blk(n.body, s[3])
        elif k == "try":
            blk(n.body, s[2])
            if len(n.handlers) != len(s[3]):
                raise ShapeMismatch("handlers")
            for hn, h in zip(n.handlers, s[3]):
                look(h[0], hn)
                blk(hn.body, h[3])
            blk(n.orelse, s[4])
            blk(n.finalbody, s[5])

    if not isinstance(tree, ast.Module):
        raise ShapeMismatch(f"{type(tree).__name__} instead of Module")
    blk(tree.body, prog)
    return obs


# ------------------------------------------------------------------------------------------------ model
# mechanisms that the code under test no longer has (a finding whose status is `fixed: …`, or whose witness passes now): the model
# is run with these repairs switched on, so that a correct upstream repair turns the finding off instead of raising an alarm
ACTIVE = set()


def fixes(*on):
    return [(n in on or n in ACTIVE) for n in FIX_NAMES]


def model(ctx, B, sess, prog_sx, fx=()):
    recs = ctx.driver.call("c02.run", list(B), list(sess), fixes(*fx), prog_sx)
    out = {}
    for sid, ok, delread, tame, shadow, g, decs in recs:
        m = out.setdefault(sid, {"ok": True, "delRead": set(), "tame": True, "shadow": False, "g": True, "offer": False, "builtin": False, "stmt": None, "ops": []})
        m["ok"] &= ok
        m["g"] &= g
        m["delRead"] |= set(delread)
        m["tame"] &= tame
        m["shadow"] |= shadow
        for kind, v in decs:
            v = str(v)
            m["offer"] |= v == "offer"
            m["builtin"] |= v == "builtin"
            if kind == 0:
                m["stmt"] = v
            else:
                m["ops"].append(v)
    return out


def all_stmts(prog):
    for s in prog:
        yield s
        k = s[0]
        subs = {"def": [5], "cls": [4], "for": [4, 5], "while": [3, 4], "if": [3, 4], "with": [3], "try": [2, 4, 5]}.get(k, [])
        if k == "try":
            for h in s[3]:
                yield ("handler", h[0])
                yield from all_stmts(h[3])
        for i in subs:
            yield from all_stmts(s[i])


def _e_names(e, loads=True):
    """names an expression mentions; with loads=False only what it may bind (walrus targets)"""
    t = e[0]
    if t == "n":
        return {e[1]} if loads else set()
    if t == "k":
        return set()
    if t == "o":
        return set().union(*[_e_names(c, loads) for c in e[2]]) if e[2] else set()
    if t == "b":
        return set().union(*[_e_names(c, loads) for c in e[2]])
    if t == "u":
        return _e_names(e[2], loads)
    if t == "l":
        return (set(e[1]) if loads else set()) | _e_names(e[2], loads)
    if t == "c":
        out = (set(e[3]) if loads else set()) | _e_names(e[2], loads) | _e_names(e[4], loads)
        for c in e[5]:
            out |= _e_names(c, loads)
        return out
    return {e[1]} | _e_names(e[2], loads)


def _t_names(t):
    if t[0] in ("n", "a", "s"):
        return {t[1]}
    return set().union(*[_t_names(x) for x in t[2]]) if t[2] else set()


def _mentions(s):
    """every name the statement's own parts mention (an expression statement: only what it may bind)"""
    k = s[0]
    E = lambda es: set().union(*[_e_names(e) for e in es]) if es else set()  # noqa: E731
    if k == "expr":
        return _e_names(s[2], loads=False)
    if k == "assign":
        return set().union(*[_t_names(t) for t in s[2]]) | _e_names(s[3])
    if k == "ann":
        return _t_names(s[2]) | _e_names(s[3]) | E(s[4])
    if k == "aug":
        return _t_names(s[2]) | _e_names(s[4])
    if k in ("imp", "impf"):
        return {x for (h, d, a, _t) in s[2] for x in (h, a) if x is not None}
    if k == "def":
        return {s[2]} | set(s[3]) | E(s[4]) | E(s[6])
    if k == "cls":
        return {s[2]} | E(s[3]) | E(s[5])
    if k == "for":
        return _t_names(s[2]) | _e_names(s[3])
    if k in ("while", "if"):
        return _e_names(s[2])
    if k == "with":
        return E([c for c, _ in s[2]]) | set().union(*[_t_names(t) for _, t in s[2] if t is not None], set())
    if k == "global":
        return set(s[2])
    if k == "ret":
        return E(s[3])
    if k == "try":
        # the `except T as e` clause headers belong to the statement that is being entered
        return set().union(*[E(h[1]) | ({h[2]} if h[2] is not None else set()) for h in s[3]], set())
    return set()


def gone_map(prog):
    """sid -> names deleted earlier in the source and not mentioned by any statement since (in source order)"""
    gone, out = set(), {}

    def blk(b):
        for s in b:
            st(s)

    def st(s):
        nonlocal gone
        k = s[0]
        out[s[1]] = set(gone)
        if k == "del":
            gone |= set(s[2]) | set(s[3])
        else:
            gone -= _mentions(s)
        if k == "try":
            blk(s[2])
            for h in s[3]:
                out[h[0]] = set(gone)
                gone -= (set().union(*[_e_names(e) for e in h[1]]) if h[1] else set()) | ({h[2]} if h[2] is not None else set())
                blk(h[3])
            blk(s[4])
            blk(s[5])
        else:
            for i in {"def": [5], "cls": [4], "for": [4, 5], "while": [3, 4], "if": [3, 4], "with": [3]}.get(k, []):
                blk(s[i])

    blk(prog)
    return out


def classify(ctx, B, sess, prog_sx, sid, good):
    """Which single repaired mechanism makes the model give the answer the property asks for at `sid` (`good(record)`)?
    None = no known mechanism explains the failure."""
    for f in FIX_NAMES:
        if good(model(ctx, B, sess, prog_sx, (f,))[sid]):
            return FIX_KEY[f]
    # two mechanisms at once: attribute to the first one that matters, provided all repairs together satisfy the property
    if good(model(ctx, B, sess, prog_sx, tuple(FIX_NAMES))[sid]):
        for f in FIX_NAMES:
            rest = tuple(g for g in FIX_NAMES if g != f)
            if not good(model(ctx, B, sess, prog_sx, rest)[sid]):
                return FIX_KEY[f]
    return None


def check_program(ctx, stream, prog, sess, src=None, local_only=()):
    """one program through the real compile/parse, the Lean model and the Lean spec; returns the number of statements compared.
    With `src` (a witness / replay) the program is what CPython reads from that text."""
    real = Real.get()
    if src is not None:
        prog, lines = abstract(src, with_lines=True)
    else:
        src, lines = to_source(prog)
        try:
            back = abstract(src)
        except (Unsupported, SyntaxError) as e:
            raise common.InfraError(f"the harness printed a program CPython does not read back: {e}\n{src}")
        if sx_b(back) != sx_b(prog):
            raise common.InfraError(f"the harness's printer and CPython's parser disagree about a program:\n{src}\n{sx_b(back)}\n{sx_b(prog)}")
    case = {"stream": stream, "session_names": [POOL[i] for i in sorted(sess)], "source": src}
    if local_only:
        case["session_names_in_locals_only"] = [POOL[i] for i in sorted(local_only)]
    prog_sx = sx_b(prog)
    tree, err = real.tree_via_compile(src, sess, local_only)
    if tree is None:
        ctx.count("impl-rejects-valid-python")
        ctx.case(stream, src, False)
        ctx.extra.setdefault("rejected_python", [])
        if len(ctx.extra["rejected_python"]) < 5:
            ctx.extra["rejected_python"].append({"source": src, "error": err})
        return 0
    try:
        obs = observe(tree, prog, ast.parse(src))
    except ShapeMismatch as e:
        # the transformer changed the statement structure of valid Python: only possible through a conversion
        ctx.count("shape-mismatch")
        obs = None
        shape_err = str(e)
    mod = model(ctx, real.B, sorted(sess), prog_sx)
    srclines = src.split("\n")
    gone = gone_map(prog)
    nontriv = False
    n = 0
    if obs is None:
        # whole-tree conversion (e.g. a tuple statement re-parsed as an Expression): Python meaning is lost for the whole input
        allok = all(m["ok"] and m["tame"] for m in mod.values())
        anyoffer = any(m["offer"] for m in mod.values())
        ctx.case(stream, src, True, case)
        if not anyoffer and not allok:
            ctx.disagree(stream, case, {"shape": shape_err}, "no statement is offered to command interpretation")
        if allok:
            # the context-free phase: the xonsh parser rejects a line CPython accepts and the retry wraps it as a command
            key = None
            try:
                real.ex.parser.parse(src, mode="exec", filename="<c02>")
            except SyntaxError:
                key = "valid-python-rejected-by-parser-is-retried-as-command"
            except Exception:  # noqa: BLE001
                pass
            ctx.spec_failure(case, {"tree": shape_err}, "every name is bound, yet the input was restructured by a subprocess re-parse", key)
        return 1
    for s in all_stmts(prog):
        sid = s[1]
        if sid not in mod:
            continue
        m, o = mod[sid], obs[sid]
        n += 1
        text = srclines[lines[sid][-1] - 1].strip() if sid in lines else ""
        c1 = case | {"statement": text, "line": lines.get(sid, [0])[-1]}
        ctx.count(f"stmt/{s[0]}")
        ctx.count("model/" + ("offer" if m["offer"] else "builtin" if m["builtin"] else "keep"))
        if o["conv"]:
            ctx.count("impl/converted")
        nontriv = nontriv or o["conv"] or m["offer"]
        if m["ok"] and m["tame"] and m["g"]:
            ctx.count("stmt-under-the-theorem (all reads bound; no unrepaired mechanism before it)")
            if m["offer"] or (m["shadow"] and m["builtin"]):
                raise common.InfraError(f"the Lean model contradicts C02_python_wins_gen on\n{src}\nat: {text}")
        # ---- correspondence
        if o["conv"] and not m["offer"]:
            ctx.disagree(stream, c1, "converted to a subprocess call", "model: every is_in_scope test succeeds")
        if o["bcmd"] != m["builtin"]:
            ctx.disagree(stream, c1, f"builtin_cmd rewrite: {o['bcmd']}", f"model: {m['builtin']}")
        must = False
        if s[0] == "expr" and m["offer"] and not m["builtin"] and len(s) > 3 and s[3]:
            if m["stmt"] == "offer" and "offer" not in m["ops"]:
                must = real.cmd_valid(text)
            elif _bare_operand_offer(s[2], m):
                must = True
            if must:
                ctx.count("expr-offer-that-must-convert")
                if not o["conv"]:
                    ctx.disagree(stream, c1, "left as Python", "model: offered to command interpretation, and the text is a valid command")
        # ---- the property, on what the real code did
        if m["tame"]:
            if m["ok"] and o["conv"]:
                k = classify(ctx, real.B, sorted(sess), prog_sx, sid, lambda r: not r["offer"]) if m["offer"] else None
                ctx.spec_failure(c1, {"converted": True, "model_offers": m["offer"]},
                                 "every name the statement reads is bound, yet it was compiled into a subprocess call", k)
            # `del x` … a later line that reads x, nothing in between mentions x, x is not defined any more: back to a command
            if s[0] == "expr" and len(s) > 3 and s[3] and (m["delRead"] & gone.get(sid, set())) and not o["conv"] and real.cmd_valid(text):
                k = classify(ctx, real.B, sorted(sess), prog_sx, sid, lambda r: r["offer"]) if not m["offer"] else None
                ctx.spec_failure(c1, {"converted": False, "model_offers": m["offer"]},
                                 "the statement reads a name that was deleted and is not bound any more, yet it stays Python", k)
            if m["ok"] and not o["conv"] and not o["bcmd"] and not m["builtin"] and not o["same"]:
                # "exactly Python's meaning": what is kept must be the tree CPython builds, not merely free of subprocess calls
                ctx.spec_failure(c1, {"converted": False, "tree_differs_from_ast_parse": True},
                                 "every name the statement reads is bound, yet its tree is not the one ast.parse builds", None)
            if m["shadow"] and o["bcmd"]:
                k = classify(ctx, real.B, sorted(sess), prog_sx, sid, lambda r: not r["builtin"]) if m["builtin"] else None
                ctx.spec_failure(c1, {"builtin_cmd": True}, "a bare name bound by the user is looked up in `builtins` instead", k)
        else:
            ctx.count("stmt-after-a-del-python-cannot-execute (property silent)")
    ctx.case(stream, src, nontriv, case if nontriv else None)
    return n


def _is_lambda(e):
    return e[0] == "l"


def _bare_operand_offer(e, m):
    """an `x and y` / `not x` expression statement over bare names: an offered operand is valid command text"""
    if e[0] == "b" and all(v[0] == "n" for v in e[2]):
        return "offer" in m["ops"]
    if e[0] == "u" and e[1] == "not" and e[2][0] == "n":
        return "offer" in m["ops"]
    return False


# ------------------------------------------------------------------------------------------------ running programs
LOG = []
_TICK = [0]
BUDGET = 1500


class Budget(Exception):
    pass


def _tag(x):
    if isinstance(x, V):
        return object.__getattribute__(x, "tag")
    if x is None or isinstance(x, (bool, str)):
        return repr(x)[:20]
    if isinstance(x, type):
        return "class:" + x.__name__
    if callable(x):
        return "callable:" + getattr(x, "__name__", "?")
    if isinstance(x, (tuple, list)):
        return type(x).__name__ + "[" + ",".join(_tag(y) for y in x[:4]) + "]"
    return type(x).__name__


def _short(t):
    return t if len(t) <= 48 else t[:30] + "#" + str(sum(map(ord, t)) % 9973)


def _log(op, *xs):
    _TICK[0] += 1
    if _TICK[0] > BUDGET:
        raise Budget("operation budget")
    LOG.append([op] + [_tag(x) for x in xs])


class V:
    """a value that supports every operation, logs each one, and never needs a real resource"""

    __slots__ = ("tag",)

    def __init__(self, tag):
        object.__setattr__(self, "tag", _short(tag))

    def __repr__(self):
        return "<" + _tag(self) + ">"

    def __format__(self, spec):
        _log("format", self)
        return _tag(self)

    def __hash__(self):
        return hash(_tag(self))

    def __bool__(self):
        _log("bool", self)
        return _TICK[0] % 3 != 0

    def __call__(self, *a, **k):
        _log("call", self, *a, *[k[x] for x in sorted(k)])
        return V(_tag(self) + "()")

    def __getattr__(self, n):
        if n.startswith("__"):
            raise AttributeError(n)
        _log("getattr", self, n)
        return V(_tag(self) + "." + n)

    def __setattr__(self, n, v):
        _log("setattr", self, n, v)

    def __getitem__(self, i):
        _log("getitem", self, i)
        return V(_tag(self) + "[]")

    def __setitem__(self, i, v):
        _log("setitem", self, i, v)

    def __delitem__(self, i):
        _log("delitem", self, i)

    def __iter__(self):
        _log("iter", self)
        return iter([V(_tag(self) + "#0"), V(_tag(self) + "#1")])

    def __len__(self):
        return 2

    def __index__(self):
        return 1

    def __contains__(self, x):
        _log("contains", self, x)
        return True

    def __enter__(self):
        _log("enter", self)
        return V(_tag(self) + "!")

    def __exit__(self, *a):
        _log("exit", self)
        return False


def _mk(op):
    def f(self, other=None):
        _log(op, self, other)
        return V(op + "(" + _tag(self) + ")")

    return f


for _o in ("add sub mul truediv floordiv mod pow lshift rshift and or xor matmul radd rsub rmul rtruediv rfloordiv rmod rpow rlshift "
           "rrshift rand ror rxor rmatmul iadd isub imul ior lt le gt ge eq ne neg pos invert").split():
    setattr(V, f"__{_o}__", _mk(_o))


def _canon_ns(ns):
    out = {}
    for k in sorted(ns):
        if k.startswith("__") or k == "_":
            continue
        v = ns[k]
        import types

        out[k] = "module:" + v.__name__ if isinstance(v, types.ModuleType) else _tag(v)
    return out


def _canon_exc(e):
    import re

    if e is None:
        return None
    x, n = e, 0
    while x is not None and n < 50:
        if isinstance(x, (RecursionError, Budget, MemoryError)):
            return "RUNAWAY"  # depth / budget dependent: not comparable between two interpreters' stack depths
        x = x.__context__ or x.__cause__
        n += 1
    if isinstance(e, SyntaxError):
        return "SyntaxError"  # (message texts of CPython's and xonsh's parsers differ)
    return type(e).__name__ + ": " + re.sub(r"0x[0-9a-f]+", "0x?", str(e))[:120]


def _world(names, lnames=()):
    """(globals, locals): one namespace, or the names of `lnames` in a separate locals mapping"""
    del LOG[:]
    _TICK[0] = 0
    glbs = {n: V(n) for n in names if n not in lnames}
    locs = {n: V(n) for n in names if n in lnames} if lnames else glbs
    return glbs, locs


def _finish(ns, out, exc):
    import re

    glbs, locs = ns
    cns = _canon_ns(glbs) if locs is glbs else {"globals": _canon_ns(glbs), "locals": _canon_ns(locs)}
    return {"log": [list(x) for x in LOG], "out": re.sub(r"0x[0-9a-f]+", "0x?", out.getvalue())[:2000], "exc": _canon_exc(exc), "ns": cns}


class _session_builtins:
    """`aliases` / `events` in `builtins` are live session objects: a program that is not shadowing them (`aliases |= x`) would
    change real state and the two runs would see different worlds.  For the length of a run they are logging values."""

    def __enter__(self):
        import json as _json
        import json.decoder  # noqa: F401
        import os as _os

        self.saved = {n: getattr(builtins, n) for n in ("aliases", "events") if hasattr(builtins, n)}
        for n in self.saved:
            setattr(builtins, n, V(n))
        # the modules a program can import: `os.x = 1` must not leak into the next run either
        self.mods = [(m, dict(vars(m))) for m in (_os, _os.path, _json, _json.decoder)]

    def __exit__(self, *a):
        for n, v in self.saved.items():
            setattr(builtins, n, v)
        for m, d in self.mods:
            vars(m).clear()
            vars(m).update(d)
        return False


class _alarm:
    """a run that does not end (`while 1:`) is cut off: both interpreters then report RUNAWAY and the case is inconclusive"""

    def __enter__(self):
        import signal

        def on(*_):
            raise Budget("wall clock")

        self.old = signal.signal(signal.SIGALRM, on)
        self.left = signal.setitimer(signal.ITIMER_REAL, 2.0)

    def __exit__(self, *a):
        import signal

        signal.setitimer(signal.ITIMER_REAL, 0)
        signal.signal(signal.SIGALRM, self.old)
        if self.left and self.left[0] > 0:
            signal.setitimer(signal.ITIMER_REAL, max(0.1, self.left[0]))
        return False


def run_python(src, names, mode="exec", lnames=()):
    import contextlib

    Real.get()  # (the session must be loaded: `builtins` has xonsh's additions in both runs)
    ns = _world(names, lnames)
    out = io.StringIO()
    exc = None
    shown = []
    hook = sys.displayhook
    sys.displayhook = lambda v: shown.append(_tag(v)) if v is not None else None
    try:
        with contextlib.redirect_stdout(out), contextlib.redirect_stderr(out), _session_builtins(), _alarm():
            exec(compile(src, "<c02>", mode, dont_inherit=True), ns[0], ns[1])
    except BaseException as e:  # noqa: BLE001
        exc = e
    finally:
        sys.displayhook = hook
    r = _finish(ns, out, exc)
    r["shown"] = shown
    return r


def run_xonsh(src, names, mode="exec", lnames=(), real_helpers=False):
    """the same source through the real Execer.exec; every subprocess helper of the session is replaced by a recorder"""
    import contextlib

    real = Real.get()
    XSH = real.XSH
    helpers = ["subproc_captured_stdout", "subproc_captured_inject", "subproc_captured_object", "subproc_captured_hiddenobject", "subproc_uncaptured"]
    saved = {h: getattr(XSH, h) for h in helpers}

    def rec(h):
        def f(*cmds, **kw):
            LOG.append(["SPAWN", h, repr(cmds)[:200]])
            return None

        return f

    ns = _world(names, lnames)
    out = io.StringIO()
    exc = None
    shown = []
    hook = sys.displayhook
    sys.displayhook = lambda v: shown.append(_tag(v)) if v is not None else None
    if real_helpers:
        helpers = []  # (the mixed stream runs a real, failing, non-raising command first)
        XSH.aliases["xvfail"] = lambda args, stdin=None: 1
        XSH.env["XONSH_SUBPROC_RAISE_ERROR"] = True  # (the shell's default)
    for h in helpers:
        setattr(XSH, h, rec(h))
    try:
        with contextlib.redirect_stdout(out), contextlib.redirect_stderr(out), _session_builtins(), _alarm():
            real.ex.exec(src, mode=mode, glbs=ns[0], locs=ns[1], filename="<c02>")
    except BaseException as e:  # noqa: BLE001
        exc = e
    finally:
        sys.displayhook = hook
        for h in helpers:
            setattr(XSH, h, saved[h])
    r = _finish(ns, out, exc)
    r["shown"] = shown
    return r


def _exec_item(item):
    src, names, mode = item[:3]
    lnames = item[3] if len(item) > 3 else []
    return {"py": run_python(src, names, mode, lnames), "xo": run_xonsh(src, names, mode, lnames)}


# ------------------------------------------------------------------------------------------------ streams
def stream_decisions(ctx, n, name="decisions"):
    ctx.stream_rule(
        name,
        "generated programs (every binder kind x module / function / class / nested scope, depth <= 5, <= 12 statements; names from a pool "
        "of real command names, builtins, xonsh's additions to builtins, module names and fresh identifiers; 0-4 of them session "
        "variables) printed to source (read back through CPython's parser: must give the same mini-AST), compiled by the REAL "
        "Execer.compile (ctx = dir(builtins) | session names, as the shell does) and the tree its Execer.parse returned inspected per "
        "statement: converted to a __xonsh__.subproc_* call / rewritten to builtin_cmd. Compared with the Lean transformer model "
        "(converted => model offers; model offers an expression statement that is valid command text => converted; builtin_cmd <=> "
        "model) and with the Lean spec (all reads bound => not converted AND its own parts are, location-free, exactly the tree "
        "ast.parse builds; reads a deleted, now unbound name and is command text => converted; user-bound bare name => not "
        "builtin_cmd). Walrus at every position PEP 572 allows (comprehension element / condition, lambda body, operands), every "
        "combination of parameter kinds (positional-only, defaults, *args, keyword-only, **kwargs) with body lines reading each "
        "parameter, pure-Python and/or statements next to command lines in both orders; non-trivial = some statement is offered or converted",
    )
    g = Gen(ctx.rng)
    for _ in range(n):
        if ctx.enough_failures():
            break
        sess = set(ctx.rng.sample(range(len(POOL)), ctx.rng.choice([0, 1, 2, 4])))
        prog = renumber(g.program(sess))
        # where the session's names live: one namespace (the shell), or some of them in a separate locals mapping
        local_only = set(i for i in sess if ctx.rng.random() < 0.5) if ctx.rng.random() < 0.4 else set()
        check_program(ctx, name, prog, sess, local_only=local_only)


def _runnable_batch(ctx, n, want_keep=True):
    """runnable programs whose every decision is `keep` / `builtin` in the model (nothing may be offered)"""
    real = Real.get()
    g = Gen(ctx.rng, runnable=True)
    out = []
    tries = 0
    while len(out) < n and tries < 6 * n:
        tries += 1
        frac = ctx.rng.choice([0.6, 0.8, 1.0])
        sess = set(i for i in range(len(POOL)) if ctx.rng.random() < frac)
        prog = renumber(g.program(sess))
        src, _lines = to_source(prog)
        if sx_b(abstract(src)) != sx_b(prog):
            raise common.InfraError("printer / CPython disagree:\n" + src)
        mod = model(ctx, real.B, sorted(sess), sx_b(prog))
        if any(m["offer"] for m in mod.values()):
            ctx.count("exec/skipped: some statement is offered (unbound name or a known mechanism; stream `decisions` covers it)")
            continue
        out.append((src, [POOL[i] for i in sorted(sess)], prog))
    return out


def _same_run(py, xo):
    return all(py[k] == xo[k] for k in ("log", "out", "exc", "ns", "shown"))


def stream_exec(ctx, n, name="exec-vs-python"):
    ctx.stream_rule(
        name,
        "runnable generated programs in which the model keeps every statement (most pool names bound in the session to values that "
        "support and LOG every operation; real imports; defined functions are called), executed by the REAL Execer.exec (every "
        "__xonsh__.subproc_* helper replaced by a recorder: nothing may be spawned) and by builtin exec of the same source: operation "
        "log, stdout, final namespace and escaping exception must be identical; single-statement inputs are also run in `single` mode "
        "(what the prompt uses) with the displayed value compared; a third of the programs is run again after a REAL command that failed "
        "without raising (`!(xvfail)`, rtn 1, $XONSH_SUBPROC_RAISE_ERROR on): the Python statements must still behave as under builtin exec; "
        "non-trivial = the run logged at least 3 operations",
    )
    batch = _runnable_batch(ctx, n)
    # where the session's names live: one namespace (the shell), or some in a separate locals mapping (ExecAlias, macros, execx(locs=…))
    split = lambda names: ([x for x in names if ctx.rng.random() < 0.5] if ctx.rng.random() < 0.35 else [])  # noqa: E731
    items = [[src, names, "exec", split(names)] for src, names, _p in batch]
    # what the prompt does: one statement, mode `single`, the value goes to sys.displayhook
    singles = []
    for _ in range(max(10, n // 4)):
        sess = set(i for i in range(len(POOL)) if ctx.rng.random() < 0.8)
        g = Gen(ctx.rng, runnable=True)
        e = g.cmdlike({"bound": set(sess), "frame": set(), "kind": "module", "walrus": set(), "sess": set(sess)})
        prog = [("expr", 0, e, True)]
        mod = model(ctx, Real.get().B, sorted(sess), sx_b(prog))
        if any(m["offer"] for m in mod.values()):
            continue
        nm_ = [POOL[i] for i in sorted(sess)]
        singles.append([to_source(prog)[0], nm_, "single", split(nm_)])
    items += singles
    res = common.map_in_child(_exec_item, items, per_item_timeout=30, label="c02-exec")
    # the same programs after a command that FAILED WITHOUT RAISING (one namespace; `!(xvfail)`, a callable alias returning 1, run
    # for real): the raise check of command chains must not reach pure-Python and / or statements
    mixed = [[src, names, "exec", []] for src, names, _p in batch[: max(20, len(batch) // 3)] if " and " in src or " or " in src]
    mres = common.map_in_child(_mixed_item, mixed, per_item_timeout=30, label="c02-mixed")
    for it, r in zip(mixed, mres):
        case = {"stream": name, "mode": "exec after a failed, non-raising command", "session_names": it[1], "source": FAIL_PREFIX + it[0]}
        if r is common.HANG or r == common.HANG or "__exc__" in r:
            ctx.count("exec/mixed: no result (worker)")
            continue
        py, xo = r["py"], r["xo"]
        if py["exc"] == "RUNAWAY" or xo["exc"] == "RUNAWAY":
            continue
        ctx.count("exec/after-failed-command")
        ctx.case(name, ("mixed", it[0]), len(py["log"]) >= 3)
        if not _same_run(py, xo):
            diff = [k for k in ("log", "out", "exc", "ns", "shown") if py[k] != xo[k]]
            ctx.spec_failure(case, {"differs_in": diff, "python": {k: py[k] for k in diff}, "xonsh": {k: xo[k] for k in diff}},
                             "every name is bound, yet after a failed (non-raising) command the Python statements did not behave like builtin exec", None)
    for it, r in zip(items, res):
        case = {"stream": name, "mode": it[2], "session_names": it[1], "session_names_in_locals_only": it[3], "source": it[0]}
        if r is common.HANG or r == common.HANG:
            ctx.spec_failure(case, "no answer within 30 s", "a program in which every name is bound did not finish under Execer.exec", None)
            continue
        if "__exc__" in r:
            raise common.InfraError("exec worker failed: " + r["__exc__"][:800])
        py, xo = r["py"], r["xo"]
        if py["exc"] == "RUNAWAY" or xo["exc"] == "RUNAWAY":
            ctx.count("exec/inconclusive: runaway recursion")
            ctx.case(name, it[0], False)
            continue
        ctx.count("exec/python-outcome/" + (py["exc"] or "finished").split(":")[0])
        ctx.case(name, (it[0], it[2]), len(py["log"]) >= 3, case | {"operations": len(py["log"])})
        spawned = [x for x in xo["log"] if x and x[0] == "SPAWN"]
        if spawned:
            ctx.spec_failure(case, {"spawn_attempts": spawned[:3]}, "every name is bound, yet running the input called a subprocess helper", None)
        elif not _same_run(py, xo):
            diff = [k for k in ("log", "out", "exc", "ns", "shown") if py[k] != xo[k]]
            ctx.spec_failure(case, {"differs_in": diff, "python": {k: py[k] for k in diff}, "xonsh": {k: xo[k] for k in diff}},
                             "every name is bound, yet Execer.exec did not behave like builtin exec of the same source", None)


# malformed lines; most cannot be re-read as a command (brackets, strings, indentation), a few can (xonsh then runs a command: no claim)
BROKEN = ["x = (", "y = [1, 2", "def f(:", "    z = 1", "x = 'abc", "foo(1, ", "}", "x = {1: ", '"""open', "x = )", "foo(", "[", "x = ]", "def f(x:",
          "try:", "return (", "$(", "x = '''abc", "print('a' 1", "f(x for", "x = @(", "if x", "x = = 1", "1 +", "class"]


FAIL_PREFIX = "xvr = !(xvfail)\nxvr.rtn\n"


def _mixed_item(item):
    """a failing command that does not raise (`!(…)`, rtn 1) runs first; the pure-Python rest must behave as under builtin exec"""
    src, names, _mode = item[:3]
    py = run_python(src, names, "exec")
    xo = run_xonsh(FAIL_PREFIX + src, names, "exec", real_helpers=True)
    xo["ns"].pop("xvr", None)
    return {"py": py, "xo": xo}


def _syntax_item(item):
    src, names, _mode = item[:3]
    lnames = item[3] if len(item) > 3 else []
    xo = run_xonsh(src, names, "exec", lnames)
    before = _finish(_world(names, lnames), io.StringIO(), None)["ns"]
    return {"xo": xo, "before": before}


def stream_syntax(ctx, n, name="syntax-error-runs-nothing"):
    ctx.stream_rule(
        name,
        "runnable all-keep programs (as in exec-vs-python) with one malformed line inserted at a random position (unbalanced bracket, "
        "unterminated string, stray indent, truncated def / class / if / for / lambda / import, dangling operator): when the REAL Execer.exec "
        "answers with a SyntaxError, the operation log must be empty, nothing spawned, nothing printed, the namespace untouched "
        "(inputs that xonsh accepts after all, e.g. as a command line, carry no claim and are counted); non-trivial = SyntaxError raised "
        "and at least one statement precedes the bad line",
    )
    batch = _runnable_batch(ctx, n)
    items = []
    for src, names, _p in batch:
        ls = src.rstrip("\n").split("\n")
        pos = ctx.rng.randint(0, len(ls))
        bad = ctx.rng.choice(BROKEN)
        ref = ls[pos] if pos < len(ls) else ""
        ind = "" if bad.startswith(" ") else ref[: len(ref) - len(ref.lstrip())]
        ls.insert(pos, ind + bad)
        items.append(["\n".join(ls) + "\n", names, "exec", pos])
    res = common.map_in_child(_syntax_item, [i[:3] for i in items], per_item_timeout=30, label="c02-syntax")
    for it, r in zip(items, res):
        case = {"stream": name, "session_names": it[1], "source": it[0], "bad_line": it[3] + 1}
        if r is common.HANG or r == common.HANG:
            ctx.count("syntax/no-answer-within-30s (parse retry loop: C03's matter)")
            ctx.case(name, it[0], False)
            continue
        if "__exc__" in r:
            raise common.InfraError("syntax worker failed: " + r["__exc__"][:800])
        xo = r["xo"]
        if xo["exc"] != "SyntaxError":
            ctx.count("syntax/accepted-or-other: " + (xo["exc"] or "ran").split(":")[0])
            ctx.case(name, it[0], False)
            continue
        ctx.count("syntax/SyntaxError")
        ctx.case(name, it[0], it[3] > 0, case)
        if xo["log"] or xo["out"] or xo["ns"] != r["before"] or xo["shown"]:
            ctx.spec_failure(case, {"log": xo["log"][:6], "out": xo["out"][:200], "namespace_changed": xo["ns"] != r["before"]},
                             "the input has a syntax error, yet part of it was executed", None)


# ------------------------------------------------------------------------------------------------ entry points
def translate(ctx):
    from translator import c02 as tr

    text, fps, errors = tr.generate(common.REPO)
    common.write_if_changed(common.module_path("XonshVerif.Gen.ExecerOrder"), text)
    ctx.fingerprints.update(fps)
    ctx.translator_errors += errors
    ctx.trusted_base.append("translator/c02.py (control skeleton of Execer.exec / eval / compile; scan of the parse path for exec/eval calls)")


def replay_known(ctx):
    """Every open finding must still fail on the real code in the way its classifier says, every fixed one must pass.  The model
    variant follows the code: a mechanism whose witness passes is switched to its repaired behaviour for the rest of the run."""
    key_fix = {v: k for k, v in FIX_KEY.items()}
    ACTIVE.clear()
    for f in ctx.known:
        if f.get("status", "").startswith("fixed") and f["key"] in key_fix:
            ACTIVE.add(key_fix[f["key"]])
    for f in ctx.known:
        w = f["witness"]
        before = len(ctx.spec_failures)
        try:
            sess = {IDX[n] for n in w["session_names"]}
            check_program(ctx, "known-witness", None, sess, src=w["source"], local_only={IDX[n] for n in w.get("session_names_in_locals_only", [])})
        except (Unsupported, KeyError, SyntaxError) as e:
            raise common.InfraError(f"known finding {f['key']}: witness unusable: {e}")
        new = ctx.spec_failures[before:]
        hit = [x for x in new if x["key"] == f["key"]]
        if f.get("status") == "open" and not new and f["key"] in key_fix and key_fix[f["key"]] not in ACTIVE:
            # the witness passes on this tree: the code no longer has the mechanism; the disagreements the buggy variant just
            # produced on the witness are withdrawn and the repaired variant is used from here on
            ACTIVE.add(key_fix[f["key"]])
            ctx.disagreements[:] = [d for d in ctx.disagreements if d["case"].get("stream") != "known-witness" or d["case"].get("source") != w["source"]]
            ctx.lean_notes.append(f"known finding {f['key']}: its witness passes on this tree; model switched to the repaired variant of that mechanism")
        if f.get("status", "").startswith("fixed") and new and all(x["key"] in {g["key"] for g in ctx.known if g.get("status") == "open"} for x in new):
            # a repaired finding's witness MUST pass: whatever fails on it is reported, also when it looks like another open finding
            ctx.spec_failure({"stream": "known-witness", "source": w["source"], "session_names": w["session_names"]},
                             {"fails_as": [x["key"] for x in new]}, f"the witness of the repaired finding {f['key']} fails again", None)
        ctx.replayed(f["key"], bool(hit) or (f.get("status", "").startswith("fixed") and bool(new)),
                     {"must_pass": f.get("status", "").startswith("fixed"), "statement": hit[0]["case"].get("statement") if hit else None, "others": [x["key"] for x in new if x["key"] != f["key"]],
                                          "model_variant": "repaired" if key_fix.get(f["key"]) in ACTIVE else "as the code is"})
    ctx.extra["model_variant_repairs_on"] = sorted(ACTIVE)


def run(ctx):
    ctx.trusted_base += [
        "xv/props/c02.py: generator, printer (read back through CPython's ast on every program), reading of the transformed tree",
        "CPython's ast / compile / exec as the reference for `Python's meaning`",
    ]
    ctx.assumptions += [
        "a session is loaded (builtins has __xonsh__ etc.) and Execer.compile is called as the shell calls it: glbs = locs = the session namespace",
        "$XONSH_BUILTINS_TO_CMD is False (default): builtin_cmd(name) returns the builtin",
        "the xonsh grammar parses the generated (valid Python) source to CPython's tree (C01); forms found where it did not (`for *a, in x:` still open) are not generated",
        "whether an offered node's re-parse as a command succeeds is the lexer's business (C03): not modelled",
    ]
    ctx.explanation = (
        "Model + Spec in lean/XonshVerif/Model/Scope.lean, skeleton language in Model/ExecOrder.lean, Gen/ExecerOrder.lean regenerated "
        "from xonsh/execer.py; theorems Props/C02.lean (lemmas in Lemmas/Scope*.lean). Streams: decisions (real Execer.compile -> tree "
        "per statement vs Impl and Spec), exec-vs-python (real Execer.exec vs builtin exec with logging values and recording spawn "
        "helpers, run in a forked worker), syntax-error-runs-nothing."
    )
    replay_known(ctx)
    stream_decisions(ctx, ctx.n(5000, 60000))
    stream_exec(ctx, ctx.n(800, 10000))
    stream_syntax(ctx, ctx.n(500, 6000))


def search(ctx, reason):
    ctx.extra["search_reason"] = reason
    stream_decisions(ctx, ctx.n(8000, 40000), name="search:decisions")
    stream_exec(ctx, ctx.n(1000, 6000), name="search:exec-vs-python")
    stream_syntax(ctx, ctx.n(500, 3000), name="search:syntax-error-runs-nothing")


def replay(ctx, path):
    r = json.loads(open(path).read())
    c = r["case"]
    src = c["source"]
    names = c.get("session_names", [])
    print(src)
    if c.get("stream", "").endswith("exec-vs-python"):
        res = _exec_item([src, names, c.get("mode", "exec"), c.get("session_names_in_locals_only", [])])
        bad = not _same_run(res["py"], res["xo"]) or any(x and x[0] == "SPAWN" for x in res["xo"]["log"])
        print(json.dumps(res, indent=1)[:3000])
    elif c.get("stream", "").endswith("syntax-error-runs-nothing"):
        res = _syntax_item([src, names, "exec"])
        xo = res["xo"]
        bad = xo["exc"] == "SyntaxError" and bool(xo["log"] or xo["out"] or xo["ns"] != res["before"])
        print(json.dumps(xo, indent=1)[:3000])
    else:
        before = len(ctx.spec_failures)
        try:
            check_program(ctx, "replay", None, {IDX[n] for n in names}, src=src, local_only={IDX[n] for n in c.get("session_names_in_locals_only", [])})
        except (Unsupported, SyntaxError) as e:
            print("cannot re-read the program:", e)
            return common.EXIT_INFRA
        new = ctx.spec_failures[before:]
        for f in new:
            print(f["why"], "|", f["case"].get("statement"), "| known mechanism:", f["key"])
        bad = any(f["key"] is None for f in new) or bool(ctx.disagreements)
    print(f"VIOLATION property={ID} replay={path}" if bad else "property holds on this input (or only known findings fail)")
    return common.EXIT_VIOLATION if bad else common.EXIT_OK
