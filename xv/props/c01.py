"""C01 — Python superset: every valid Python program parses to CPython's syntax tree.   (partial)

Main clause (xonsh's PLY LALR parser vs CPython's PEG parser): NOT proved, SEARCHED — differential `Parser.parse(src, mode)` vs
`ast.parse(src, mode)` under a strict normaliser, in exec / eval / single mode, over (a) real files, (b) random trees of the running
grammar, (c) token-level rewrites and corner cases.  Proved (Props/C01.lean, over tables translated from /repo on every run): operator
and keyword token tables, and `context_check._not_assignable` against CPython's target rule for targets of any nesting.

Every failure is localised to MINIMAL FAILING UNITS (one statement / one expression, failing children replaced by a placeholder) and
each unit must be explained by a known FORM: a syntactic predicate over the unit's CPython tree / token stream, the expected kind of
failure, and a CURE (a targeted source edit or an expected-tree transformation) after which the unit must parse to CPython's tree.
A unit no known form explains and cures is a NEW rejected / mis-parsed form: VIOLATION."""

from __future__ import annotations

import ast
import io
import json
import os
import re
import signal
import subprocess
import sys
import textwrap
import time
import tokenize as pytok
import unicodedata
import warnings

from .. import common
from ..codec import Sym
from . import c01gen

ID = "C01"
LEVEL = "other"
GEN_MODULES = ["XonshVerif.Gen.PyTokens"]
PROPS_MODULES = ["XonshVerif.Props.C01"]
TECHNIQUE = (
    "partial: Lean 4 proofs over translated tables (operator / keyword token maps by `decide +kernel` over the complete tables; "
    "assignment-target validation by structural induction) + differential search of the main clause against CPython's own parser "
    "(strict tree normaliser, real files + random trees of the running grammar + token-level rewrites, 16 worker processes), every "
    "failure localised to a minimal unit and matched against syntactic known-form classifiers with a cure test"
)
LEVEL_TEXT = (
    "partial — THE MAIN CLAUSE IS NOT PROVED AND NO THEOREM CLAIMS IT: 'every text CPython's PEG parser accepts is accepted by xonsh's "
    "PLY LALR(1) automaton with the same tree' relates two unmodelled parsers (≈1300 lines of generated table, ≈600 imperative grammar "
    "actions, a regex tokenizer, a stateful lexer); it is SEARCHED differentially against ast.parse in exec/eval/single mode. PROVED, "
    "over tables regenerated from /repo and the running interpreter on every run (Gen/PyTokens.lean): every CPython operator spelling "
    "(token.EXACT_TOKEN_TYPES) is taken by the tokenizer's ordered operator pattern as one token and mapped by the lexer to a PLY token "
    "type the grammar knows (C01_ops_total, C01_ops_known), injectively (C01_ops_injective); every hard keyword becomes its own token "
    "type, never a name (C01_kw_total, C01_kw_injective; counterexample C01_kw_glued_cex: `and`/`or` glued to the next token); every "
    "soft keyword becomes a token the production `name` accepts (C01_softkw_names); and, for context_check._not_assignable with its "
    "isinstance chain read from the source, by structural induction for ANY nesting: every assignment / augmented / del target "
    "CPython's rule allows — empty () / [] included — passes check_contexts (C01_targets_full, unconditional for the current source: "
    "the emptiness test of _not_assignable was removed in /repo 7cb36ca; C01_targets is the same under the hypothesis 'no emptiness "
    "test', C01_targets_partial / C01_targets_cex describe the old source and stay as the regression guard), with the exact converse "
    "under side conditions (C01_targets_iff_partial). Parser-table freshness: the LALR table is regenerated with PLY from the "
    "working-tree grammar in a scratch directory and compared (productions, action, goto) with the table xonsh loads unvalidated."
)
LEVEL_NOTE = (
    "Not covered by any theorem: the grammar, the ≈600 grammar actions, the tokenizer's scanning loop, the f-string rules, PLY's LALR "
    "engine. The tie of the two Lean models is differential (real _not_assignable / real lexer vs the Lean definitions; CPython's "
    "target rule vs ast.parse). Trusted: Lean kernel + standard axioms; translator/c01.py; the harness (normaliser, localiser, form "
    "classifiers); CPython's ast.parse / compile as the reference. The normaliser maps xonsh's private Constant.kind markers "
    "(num/str/bytes/name) to None and a missing `type_params` to [] (what compile() does in 3.12); everything else is compared."
)

TABLES = {}  # filled by translate(): the raw tables the Lean file was generated from


def translate(ctx):
    from translator import c01 as tr

    text, fps, errors = tr.generate(common.REPO)
    if text is not None:
        common.write_if_changed(common.module_path("XonshVerif.Gen.PyTokens"), text)
        TABLES.update(parse_gen_tables(text))
    ctx.fingerprints.update(fps)
    ctx.translator_errors += errors
    ctx.trusted_base.append("translator/c01.py (lexer token_map / special_handlers / handle_name, tokenize.Funny expanded in regex-engine order, grammar production `name`, the isinstance chain of _not_assignable; token / keyword / ast tables of the running interpreter)")


def parse_gen_tables(text):
    """read the tables back from the generated Lean text (so that the harness talks to the driver about exactly what Lean proved over)"""
    out = {}
    for m in re.finditer(r"^def (\w+) : ([^\n]*?) := \[\n(.*?)\n\]", text, flags=re.S | re.M):
        name, ty, body = m.groups()
        rows = []
        for line in body.split("\n"):
            line = line.strip().rstrip(",")
            if not line:
                continue
            lists = re.findall(r"\[([0-9, ]*)\]", line)
            strs = ["".join(chr(int(x)) for x in l.split(",") if x.strip()) for l in lists]
            rows.append(strs[0] if "×" not in ty else [strs[0], strs[1]])
        out[name] = rows
    m = re.search(r"^def augSeqMsg : List Nat := \[([0-9, ]*)\]", text, flags=re.M)
    out["augSeqMsg"] = "".join(chr(int(x)) for x in m.group(1).split(",") if x.strip()) if m else ""
    m = re.search(r"^def emptySeqMsg : Option \(List Nat\) := (none|some \[([0-9, ]*)\])", text, flags=re.M)
    out["emptySeqMsg"] = None if (not m or m.group(1) == "none") else "".join(chr(int(x)) for x in m.group(2).split(",") if x.strip())
    m = re.search(r"^def recursionPassesAug : Bool := (true|false)", text, flags=re.M)
    out["recAug"] = bool(m and m.group(1) == "true")
    return out


# ====================================================================================================== the strict normaliser
XONSH_KINDS = {"str", "bytes", "num", "name"}
MISSING = "<missing>"


def norm(x):
    """location-free normal form of a tree: EVERY field of every node (identifiers, attribute / keyword names, import levels,
    contexts, operators, constants with their exact type and kind); positions and attributes that are not ast fields are dropped"""
    if isinstance(x, ast.AST):
        out = [type(x).__name__]
        for f in type(x)._fields:
            try:
                v = getattr(x, f)
            except AttributeError:
                # 3.12 compile(): a missing `type_params` is the empty list (documented backwards compatibility)
                out.append((f, [] if f == "type_params" else MISSING))
                continue
            if f == "kind" and isinstance(x, ast.Constant):
                v = None if v in XONSH_KINDS else v
            if f == "values" and isinstance(x, ast.JoinedStr) and isinstance(v, list):
                v = _canon_joined(v)
            out.append((f, norm(v)))
        return tuple(out)
    if isinstance(x, list):
        return [norm(y) for y in x]
    if isinstance(x, tuple):
        return ("<tuple>",) + tuple(norm(y) for y in x)
    return ("<c>", type(x).__name__, repr(x))


def _canon_joined(values):
    """the literal pieces of an f-string in canonical form: adjacent text pieces joined, empty text pieces dropped.  (CPython 3.12
    itself leaves an empty Constant('') after a nested field that ends a format spec and joins `a {x=}` into 'a x=' where xonsh
    keeps 'a ', 'x=': the concatenation is what an f-string means, so both trees are compared in this form.)"""
    out = []
    for v in values:
        if isinstance(v, ast.Constant) and isinstance(v.value, str):
            if v.value == "":
                continue
            if out and isinstance(out[-1], ast.Constant) and isinstance(out[-1].value, str):
                out[-1] = ast.Constant(value=out[-1].value + v.value, kind=getattr(out[-1], "kind", None))
                continue
            out.append(ast.Constant(value=v.value, kind=getattr(v, "kind", None)))
        else:
            out.append(v)
    return out


def short(n, lim=140):
    s = n if isinstance(n, str) else repr(n)
    return s if len(s) <= lim else s[:lim] + "…"


def first_diff(a, b, path="$"):
    """first difference of two normal forms, STRICT: a length difference is a difference (no zip truncation)"""
    if type(a) is not type(b):
        return path, short(a), short(b)
    if isinstance(a, list):
        for i, (x, y) in enumerate(zip(a, b)):
            d = first_diff(x, y, f"{path}[{i}]")
            if d:
                return d
        if len(a) != len(b):
            return path + ".len", str(len(a)), str(len(b))
        return None
    if isinstance(a, tuple):
        if (a and a[0] == "<c>") or (b and b[0] == "<c>"):
            return None if a == b else (path, short(a), short(b))
        if a[0] != b[0] or len(a) != len(b):
            return path, short(a), short(b)
        if a[0] == "<tuple>":
            for i, (x, y) in enumerate(zip(a[1:], b[1:])):
                d = first_diff(x, y, f"{path}({i})")
                if d:
                    return d
            return None
        for (fa, va), (fb, vb) in zip(a[1:], b[1:]):
            d = first_diff(va, vb, f"{path}.{a[0]}.{fa}")
            if d:
                return d
        return None
    return None if a == b else (path, short(a), short(b))


# ====================================================================================================== the parsers under test
class _Timeout(BaseException):
    pass


def _on_alarm(*_):
    raise _Timeout()


_PARSERS = {}
FRESH_DIR = None  # set in workers when a regenerated table differs from the one xonsh loads
PARSE_TIMEOUT = 30


def get_parser(which="repo"):
    """`repo`: exactly what xonsh builds (xonsh.parser.Parser() with the table module it finds, loaded unvalidated);
    `fresh`: the same class over the table regenerated from the working-tree grammar in the scratch directory"""
    p = _PARSERS.get(which)
    if p is None:
        common.setup_repo_imports()
        from xonsh.parser import Parser

        if which == "repo":
            p = Parser()
        else:
            if FRESH_DIR not in sys.path:
                sys.path.insert(0, FRESH_DIR)
            p = Parser(yacc_optimize=True, yacc_table="c01_fresh_table", outputdir=FRESH_DIR)
        _PARSERS[which] = p
    return p


def xparse(src, mode, which="repo"):
    """one guarded call of Parser.parse: the guard counts the worker's own CPU time (a parser that loops burns CPU; a machine that is
    busy with other checks must not look like a hang), with a wall-clock backstop ten times as long"""
    p = get_parser(which)
    old_prof = signal.signal(signal.SIGPROF, _on_alarm)
    old_real = signal.signal(signal.SIGALRM, _on_alarm)
    signal.setitimer(signal.ITIMER_PROF, PARSE_TIMEOUT)
    signal.setitimer(signal.ITIMER_REAL, PARSE_TIMEOUT * 10)
    try:
        return "ok", p.parse(src, mode=mode)
    except _Timeout:
        return "hang", f"no answer within {PARSE_TIMEOUT}s of CPU time"
    except SyntaxError as e:
        return "reject", f"{type(e).__name__}: {str(e)[:160]}"
    except RecursionError:
        return "recursion", ""
    except BaseException as e:  # noqa: BLE001
        return "crash", f"{type(e).__name__}: {str(e)[:160]}"
    finally:
        signal.setitimer(signal.ITIMER_PROF, 0)
        signal.setitimer(signal.ITIMER_REAL, 0)
        signal.signal(signal.SIGPROF, old_prof)
        signal.signal(signal.SIGALRM, old_real)


def check(src, mode, which="repo", expect=(), ctree=None):
    """None: xonsh accepts `src` and builds CPython's tree and the tree compiles; "skip": CPython itself does not accept `src`;
    else {"kind": reject|differs|compile|hang|crash, "detail": …}.
    `expect`: known-form transformations applied to CPython's tree first (the form's model of the wrong answer)."""
    try:
        ct = ctree if ctree is not None else ast.parse(src, mode=mode)
    except (SyntaxError, ValueError, RecursionError, MemoryError):
        return "skip"
    xs = src if (mode == "eval" or src.endswith("\n")) else src + "\n"  # Execer._parse_ctx_free appends the newline
    kind, xt = xparse(xs, mode, which)
    if kind == "recursion":
        return "skip"
    if kind != "ok":
        return {"kind": kind, "detail": xt}
    if xt is None:
        # comment-only / empty input: the Execer turns None into `pass`
        if mode != "eval" and not ct.body:
            return None
        return {"kind": "differs", "detail": ("$", "None", short(norm(ct)))}
    tolerated_compile = None
    if expect:
        ct = ast.parse(src, mode=mode)
        for f in expect:
            if f.expect is not None:
                f.expect(ct)
            if f.compile_msg:
                tolerated_compile = (tolerated_compile or []) + [f.compile_msg]
    try:
        a, b = norm(xt), norm(ct)
    except RecursionError:
        return "skip"
    d = first_diff(a, b)
    if d:
        return {"kind": "differs", "detail": d}
    try:
        with warnings.catch_warnings():
            warnings.simplefilter("ignore")
            compile(ast.parse(src, mode=mode), "<c>", mode)
        cpy_compiles = True
    except BaseException:  # noqa: BLE001
        cpy_compiles = False
    if cpy_compiles:
        try:
            with warnings.catch_warnings():
                warnings.simplefilter("ignore")
                compile(xt, "<x>", mode)
        except BaseException as e:  # noqa: BLE001
            msg = f"{type(e).__name__}: {str(e)[:160]}"
            if tolerated_compile and any(re.search(t, msg) for t in tolerated_compile):
                return None
            return {"kind": "compile", "detail": msg}
    return None


# ====================================================================================================== minimal failing units
HOLE = "__h__"


def children_units(node):
    """nearest descendants that are statements or expressions"""
    out = []
    for c in ast.iter_child_nodes(node):
        if isinstance(c, (ast.expr_context, ast.operator, ast.boolop, ast.unaryop, ast.cmpop)):
            continue
        if isinstance(c, (ast.stmt, ast.expr)):
            out.append(c)
        else:
            out += children_units(c)
    return out


def line_offsets(src):
    offs, n = [], 0
    for l in src.splitlines(keepends=True):
        offs.append(n)
        n += len(l.encode("utf-8"))
    offs.append(n)
    return offs


def span(node, offs):
    """byte span of a node in the utf-8 source (decorated definitions start at their first `@`)"""
    decos = getattr(node, "decorator_list", None) if isinstance(node, ast.stmt) else None
    if decos:
        d = min(decos, key=lambda d: (d.lineno, d.col_offset))
        return offs[d.lineno - 1] + d.col_offset, offs[node.end_lineno - 1] + node.end_col_offset, True
    return offs[node.lineno - 1] + node.col_offset, offs[node.end_lineno - 1] + node.end_col_offset, False


def unit_text(srcb, offs, node):
    a, b, deco = span(node, offs)
    if isinstance(node, ast.stmt):
        if deco:
            a = srcb.rfind(b"@", 0, a + 1) if srcb[a : a + 1] != b"@" else a
            a = srcb.rfind(b"@", 0, a) if srcb[a : a + 1] != b"@" else a
        ls = srcb.rfind(b"\n", 0, a) + 1
        if srcb[ls:a].strip() == b"":
            text = srcb[ls:b].decode("utf-8")
            return textwrap.dedent(text) + "\n"
        return srcb[a:b].decode("utf-8") + "\n"  # starts mid-line (after `;` or a one-line suite)
    return "(" + srcb[a:b].decode("utf-8") + "\n)\n"


def _same_shape(a, b):
    def strip(n):
        return repr(norm(n)).replace("('Store',)", "('Load',)").replace("('Del',)", "('Load',)")

    return strip(a) == strip(b)


def stands_alone(c, text):
    try:
        sub = ast.parse(text)
    except (SyntaxError, ValueError, RecursionError, MemoryError):
        return False
    if len(sub.body) != 1:
        return False
    got = sub.body[0].value if (isinstance(c, ast.expr) and isinstance(sub.body[0], ast.Expr)) else sub.body[0]
    try:
        return _same_shape(c, got)
    except RecursionError:
        return False


def minimise(src, which, budget):
    """src: exec-mode program on which `check` fails.  -> the minimal failing units [(unit_src, failure)]: a unit is one statement
    (or one parenthesised expression) whose own children all pass; failing children are reported on their own and replaced by a
    placeholder in their parent, so every defect shows at its own level."""
    try:
        tree = ast.parse(src)
    except (SyntaxError, ValueError, RecursionError, MemoryError):
        return None
    srcb = src.encode("utf-8")
    offs = line_offsets(src)
    roots = tree.body
    if len(roots) == 1 and isinstance(roots[0], ast.Expr) and src.startswith("("):
        cands = children_units(roots[0].value)
    elif len(roots) == 1:
        cands = children_units(roots[0])
    else:
        cands = list(roots)
    res, holes = [], []
    todo = list(cands)
    while todo:
        c = todo.pop(0)
        if budget[0] <= 0:
            return None
        text = unit_text(srcb, offs, c)
        if not stands_alone(c, text):
            todo = children_units(c) + todo  # cannot stand alone (Starred, Slice, keyword value in odd layout …): look through it
            continue
        budget[0] -= 1
        r = check(text, "exec", which)
        if r in (None, "skip"):
            continue
        inner = minimise(text, which, budget)
        if inner is None:
            return None
        res += inner
        holes.append(c)
    if not holes:
        r = check(src, "exec", which)
        return [(src, r)] if r not in (None, "skip") else []
    out = srcb
    for c in sorted(holes, key=lambda c: -span(c, offs)[0]):
        a, b, deco = span(c, offs)
        if deco and srcb[a : a + 1] != b"@":
            a = srcb.rfind(b"@", 0, a)
        if isinstance(c, ast.stmt):
            rep = b"pass"
        else:
            rep = HOLE.encode()
            if a > 0 and (srcb[a - 1 : a].isalnum() or srcb[a - 1 : a] in (b"_", b"'", b'"') or srcb[a - 1] > 127):
                rep = b" " + rep
            if b < len(srcb) and (srcb[b : b + 1].isalnum() or srcb[b : b + 1] in (b"_", b"'", b'"') or srcb[b] > 127):
                rep = rep + b" "
        out = out[:a] + rep + out[b:]
    holed = out.decode("utf-8")
    try:
        ast.parse(holed)
    except (SyntaxError, ValueError):
        return res + [(src, {"kind": "unlocalised", "detail": "the variant with failing children replaced does not parse"})]
    budget[0] -= 1
    r = check(holed, "exec", which)
    if r not in (None, "skip"):
        res.append((holed, r))
    return res


def failing_units(src, mode, which="repo", budget=1500):
    """-> (failure of the whole input or None, [(unit_src, unit_mode, failure)])"""
    r = check(src, mode, which)
    if r in (None, "skip"):
        return r, []
    if mode == "eval":
        wrapped = "(" + src + "\n)\n"
        r2 = check(wrapped, "exec", which)
        if r2 in (None, "skip"):
            return r, [(src, "eval", r)]  # fails only as an eval-mode input
        u = minimise(wrapped, which, [budget])
    else:
        body_src = src if src.endswith("\n") else src + "\n"
        r2 = check(body_src, "exec", which) if mode == "single" else r
        if r2 in (None, "skip"):
            return r, [(src, mode, r)]  # fails only as a single-mode input
        u = minimise(body_src, which, [budget])
    if u is None:
        return r, [(src, mode, {"kind": "unlocalised", "detail": "localisation budget exhausted: " + str(r)[:200]})]
    if not u:
        # every part passes alone and so does the holed whole: the failure needs the parts together
        return r, [(src, mode, r)]
    return r, [(us, "exec", ur) for us, ur in u]


# ====================================================================================================== known forms
class U:
    """a failing unit seen through CPython: source, tree (with parents) and token stream"""

    def __init__(self, src, mode="exec"):
        self.src, self.mode = src, mode
        self.srcb = src.encode("utf-8")
        self.offs = line_offsets(src)
        self.tree = ast.parse(src, mode=mode)
        self.parent = {}
        for n in ast.walk(self.tree):
            for c in ast.iter_child_nodes(n):
                self.parent[c] = n
        self._toks = None

    def nodes(self, *types):
        return [n for n in ast.walk(self.tree) if isinstance(n, types)]

    def a(self, node):
        return self.offs[node.lineno - 1] + node.col_offset

    def b(self, node):
        return self.offs[node.end_lineno - 1] + node.end_col_offset

    def text(self, node):
        return self.srcb[self.a(node) : self.b(node)].decode("utf-8")

    def prev_char(self, pos):
        i = pos - 1
        while i >= 0 and self.srcb[i : i + 1] in (b" ", b"\t", b"\n", b"\r", b"\\"):
            i -= 1
        return (self.srcb[i : i + 1].decode("latin-1"), i) if i >= 0 else ("", -1)

    def next_char(self, pos):
        i = pos
        n = len(self.srcb)
        while i < n and self.srcb[i : i + 1] in (b" ", b"\t", b"\n", b"\r", b"\\"):
            i += 1
        if i < n and self.srcb[i : i + 1] == b"#":  # a comment inside brackets
            j = self.srcb.find(b"\n", i)
            return self.next_char(j + 1) if j >= 0 else ("", n)
        return (self.srcb[i : i + 1].decode("latin-1"), i) if i < n else ("", n)

    def close_of(self, pos):
        """byte offset of the bracket that closes the one opened at byte `pos` (by python's token stream), or -1"""
        depth = 0
        for ty, s, a, b in self.toks:
            if a < pos or ty != pytok.OP:
                continue
            if s in "([{" and len(s) == 1:
                depth += 1
            elif s in ")]}" and len(s) == 1:
                depth -= 1
                if depth == 0:
                    return a
        return -1

    def bare_tuple(self, node):
        """a Tuple written without parentheses of its own (`a, b`, `(a), b` — not `(a, b)`)"""
        if not isinstance(node, ast.Tuple) or not node.elts:
            return False
        a, b = self.a(node), self.b(node)
        if self.srcb[a : a + 1] != b"(":
            return True
        return self.close_of(a) != b - 1

    def ends_with_comma(self, node):
        """bare tuple written with a comma after its last element (the node's range includes that comma)"""
        if not self.bare_tuple(node):
            return False
        if self.srcb[self.b(node) - 1 : self.b(node)] == b",":
            return True
        return self.next_char(self.b(node.elts[-1]))[0] == ","

    def parenthesised(self, node):
        return self.prev_char(self.a(node))[0] == "(" and self.next_char(self.b(node))[0] == ")"

    def wrap(self, node):
        return [(self.a(node), self.a(node), b"("), (self.b(node), self.b(node), b")")]

    def wrap_bare_tuple(self, node):
        """parenthesise a bare tuple including its trailing comma"""
        end = self.b(node)
        if self.srcb[end - 1 : end] != b",":
            c, i = self.next_char(end)
            if c == "," and not isinstance(self.parent.get(node), (ast.Tuple, ast.List, ast.Set, ast.Call, ast.Dict)):
                end = i + 1
            elif len(node.elts) == 1:
                # `x[*a]`: a one-element tuple without a comma exists only as a starred subscript; in parentheses it needs the comma
                return [(self.a(node), self.a(node), b"("), (end, end, b",)")]
        return [(self.a(node), self.a(node), b"("), (end, end, b")")]

    def replace(self, node, text):
        return [(self.a(node), self.b(node), text.encode("utf-8"))]

    @property
    def toks(self):
        """python's own token stream with BYTE offsets: (type, string, start_byte, end_byte)"""
        if self._toks is None:
            out = []
            lines = self.src.splitlines(keepends=True)
            try:
                for t in pytok.generate_tokens(io.StringIO(self.src).readline):
                    if t.type in (pytok.ENCODING, pytok.ENDMARKER) or t.start[0] > len(lines):
                        continue
                    sa = self.offs[t.start[0] - 1] + len(lines[t.start[0] - 1][: t.start[1]].encode("utf-8"))
                    eb = self.offs[t.end[0] - 1] + len(lines[t.end[0] - 1][: t.end[1]].encode("utf-8")) if t.end[0] <= len(lines) else len(self.srcb)
                    out.append((t.type, t.string, sa, eb))
            except (pytok.TokenError, IndentationError, SyntaxError):
                pass
            self._toks = out
        return self._toks


def apply_edits(srcb, edits):
    out = srcb
    last = None
    def boundary(i):
        return i >= len(srcb) or (srcb[i] & 0xC0) != 0x80

    for a, b, rep in sorted(set(edits), key=lambda e: (-e[0], -e[1])):
        if last is not None and b > last:
            continue  # overlapping edit: skip (the next round sees the rest)
        if not (boundary(a) and boundary(b)) or a > b or a < 0:
            continue  # python 3.12.1's tokenizer mis-reports columns of f-string pieces after non-ASCII text: never cut inside a character
        out = out[:a] + rep + out[b:]
        last = a
    return out.decode("utf-8")


class Form:
    def __init__(self, key, what, witness, kinds, detect, sig=None, expect=None, compile_msg=None, modes=("exec",), fix=None):
        self.key, self.what, self.witness, self.kinds, self.detect = key, what, witness, set(kinds), detect
        self.sig, self.expect, self.compile_msg, self.modes, self.fix = sig, expect, compile_msg, modes, fix

    def matches_failure(self, r):
        if r["kind"] not in self.kinds:
            return False
        return self.sig is None or re.search(self.sig, failure_text(r)) is not None


def failure_text(r):
    """`differs`: "<path> xonsh=<…> cpython=<…>"; otherwise the message"""
    d = r["detail"]
    if r["kind"] == "differs" and isinstance(d, (tuple, list)) and len(d) == 3:
        return f"{d[0]} xonsh={d[1]} cpython={d[2]}"
    return str(d)


FORMS = []


def form(key, what, witness, kinds, sig=None, expect=None, compile_msg=None, modes=("exec",), fix=None):
    def deco(fn):
        FORMS.append(Form(key, what, witness, kinds, fn, sig, expect, compile_msg, modes, fix))
        return fn

    return deco


# ---------------------------------------------------------------------------------------------------- annotated assignment
def _x_annassign_simple(ct):
    for n in ast.walk(ct):
        if isinstance(n, ast.AnnAssign):
            n.simple = 1


@form(
    "annassign-simple-flag",
    "an annotated assignment whose target is not a bare name (`self.x: int = 1`, `x[0]: T`, `(x): T`) gets simple=1 (CPython: 0); compile() of xonsh's tree then fails ('AnnAssign with simple non-Name target') — the statement cannot run",
    [("self.x: int = 1\n", "exec")],
    {"differs", "compile"},
    sig=r"AnnAssign\.simple|AnnAssign with simple non-Name",
    expect=_x_annassign_simple,
    compile_msg=r"AnnAssign with simple non-Name target",
    fix="xonsh/parsers/v36.py p_expr_stmt_annassign: simple=int(isinstance(p1, ast.Name) and not <target was parenthesised>) instead of the constant 1",
)
def d_annassign_simple(u):
    return [n for n in u.nodes(ast.AnnAssign) if n.simple == 0] and True


@form(
    "annassign-value-not-a-test",
    "the value of an annotated assignment may be a bare tuple, a starred tuple or a yield expression (`x: T = 1, 2`, `x: T = *a, b`, `x: T = yield`); xonsh's rule `expr_stmt : testlist_star_expr COLON test EQUALS test` takes a single `test` only and rejects them",
    [("x: tuple = 1, 2\n", "exec"), ("def g():\n    x: int = yield\n", "exec")],
    {"reject"},
    fix="grammar: `… COLON test EQUALS yield_expr_or_testlist_star_expr` (needs the table regenerated)",
)
def d_annassign_value(u):
    ed = []
    for n in u.nodes(ast.AnnAssign):
        v = n.value
        if v is None:
            continue
        if u.bare_tuple(v):
            ed += u.wrap_bare_tuple(v)
        elif isinstance(v, (ast.Yield, ast.YieldFrom)) and not u.parenthesised(v):
            ed += u.wrap(v)
    return ed


# ---------------------------------------------------------------------------------------------------- starred / bare tuples
@form(
    "bare-starred-tuple-value",
    "a bare tuple with a starred element as the value of an assignment / augmented assignment or as a for-loop iterable (`x = a, *b`, `x = *a,`, `x += a, *b`, `for i in a, *b:`) is rejected (the right-hand side is `testlist`, which has no `star_expr`); `return a, *b` and `(a, *b)` are fine",
    [("x = a, *b\n", "exec")],
    {"reject"},
    sig=r"code: \*",
    fix="grammar: use testlist_star_expr on the right of `=` / augassign and in for_stmt's iterable (needs the table regenerated)",
)
def d_bare_starred_value(u):
    ed = []
    for n in u.nodes(ast.Assign, ast.AugAssign, ast.For, ast.AsyncFor):
        v = n.iter if isinstance(n, (ast.For, ast.AsyncFor)) else n.value
        if u.bare_tuple(v) and any(isinstance(e, ast.Starred) for e in v.elts):
            ed += u.wrap_bare_tuple(v)
    return ed


@form(
    "star-target-in-chained-assignment",
    "a bare tuple target with a starred element followed by a second `=` (`a, *b = c = d`) is rejected: the rules expr_stmt_star5/star6 allow exactly one `=`",
    [("a, *b = c = d\n", "exec")],
    {"reject"},
    sig=r"code: [=*]",
)
def d_star_target_chain(u):
    ed = []
    for n in u.nodes(ast.Assign):
        if len(n.targets) >= 2:
            for t in n.targets:
                if u.bare_tuple(t) and any(isinstance(e, ast.Starred) for e in t.elts):
                    ed += u.wrap_bare_tuple(t)
    return ed


@form(
    "starred-in-subscript",
    "a starred element in a subscript (`tuple[*Ts]`, `x[a, *b]`, PEP 646) is rejected",
    [("x[a, *b]\n", "exec")],
    {"reject"},
    sig=r"code: \*",
    fix="grammar: subscriptlist elements may be star_expr (needs the table regenerated)",
)
def d_starred_subscript(u):
    ed = []
    for n in u.nodes(ast.Subscript):
        if u.bare_tuple(n.slice):
            for e in n.slice.elts:
                if isinstance(e, ast.Starred):
                    ed.append((u.a(e), u.a(e) + 1, b" "))  # drop the star, touch nothing else (slices cannot be parenthesised)
    return ed


@form(
    "one-tuple-subscript",
    "a one-element tuple subscript written with a trailing comma (`d[1,]`, `a[1:2,]`) loses the tuple: xonsh builds `d[1]` — a different key",
    [("d[1,]\n", "exec")],
    {"differs"},
    sig=r"Subscript\.slice",
    fix="xonsh/parsers/base.py subscriptlist action: build a Tuple whenever a comma was seen (comma_opt is not None), not only for ≥ 2 elements",
)
def d_one_tuple_subscript(u):
    ed = []
    for n in u.nodes(ast.Subscript):
        s = n.slice
        if u.bare_tuple(s) and len(s.elts) == 1 and not isinstance(s.elts[0], ast.Starred):
            if any(isinstance(x, ast.Slice) for x in ast.walk(s)):
                # `a[1:2,]` cannot be re-spelled with parentheses: replace the slice by a name, the tuple by a parenthesised one
                ed += [(u.a(s.elts[0]), u.b(s.elts[0]), b"__s__")] + u.wrap_bare_tuple(s)
            else:
                ed += u.wrap_bare_tuple(s)
    return ed


@form(
    "one-tuple-loop-target",
    "a one-element bare tuple as the target of a for loop or a comprehension (`for i, in xs`, `[x for x, in xs]`) loses the tuple: xonsh binds the whole item to the name instead of unpacking it",
    [("for i, in xs: pass\n", "exec")],
    {"differs"},
    sig=r"\.target",
    fix="xonsh/parsers/base.py for_stmt / comp_for actions: keep the Tuple when exprlist had a trailing comma",
)
def d_one_tuple_target(u):
    ed = []
    for n in u.nodes(ast.For, ast.AsyncFor, ast.comprehension):
        t = n.target
        if u.bare_tuple(t) and len(t.elts) == 1:
            ed += u.wrap_bare_tuple(t)
    return ed


@form(
    "set-display-late-star",
    "a set display with a starred element after the first position (`{a, *b}`) is rejected; `{*a, b}` is fine",
    [("{a, *b}\n", "exec")],
    {"reject"},
    sig=r"code: \*",
    fix="grammar: dictorsetmaker's set alternative must allow star_expr in every position (needs the table regenerated)",
)
def d_set_late_star(u):
    ed = []
    for n in u.nodes(ast.Set):
        for e in n.elts[1:]:
            if isinstance(e, ast.Starred):
                ed.append((u.a(e), u.a(e) + 1, b"1,"))  # `*b` -> `1,b`: no star any more, nothing else touched
    return ed


@form(
    "bare-walrus-in-subscript-or-set",
    "an unparenthesised assignment expression as a subscript or as an element of a set display / comprehension (`a[b:=0]`, `{b:=1}`) is rejected",
    [("a[b:=0]\n", "exec")],
    {"reject"},
    sig=r"code: :=",
)
def d_bare_walrus(u):
    ed = []
    for n in u.nodes(ast.NamedExpr):
        p = u.parent.get(n)
        if isinstance(p, ast.Tuple) and isinstance(u.parent.get(p), ast.Subscript) and u.parent[p].slice is p:
            p = u.parent[p]
        if isinstance(p, (ast.Subscript, ast.Set, ast.SetComp)) and not u.parenthesised(n):
            ed += u.wrap(n)
    return ed


@form(
    "star-argument-not-an-expr",
    "a starred call argument / class base whose value is a boolean operation, a comparison, a conditional or `not …` / lambda (`f(*a or b)`, `f(*[] if p else q)`) is rejected or built without a context; CPython takes any expression after `*`",
    [("f(*a or b)\n", "exec")],
    {"reject", "differs"},
    fix="grammar: `argument : TIMES test` instead of `TIMES expr`-level (needs the table regenerated)",
)
def d_star_arg(u):
    ed = []
    for n in u.nodes(ast.Call, ast.ClassDef):
        for a in n.args if isinstance(n, ast.Call) else n.bases:
            if isinstance(a, ast.Starred) and (isinstance(a.value, (ast.BoolOp, ast.Compare, ast.IfExp, ast.Lambda)) or (isinstance(a.value, ast.UnaryOp) and isinstance(a.value.op, ast.Not))) and not u.parenthesised(a.value):
                ed += u.wrap(a.value)
    return ed


# ---------------------------------------------------------------------------------------------------- with
@form(
    "with-parenthesised-items",
    "parenthesised with-items (PEP 617): `with (a as b, c as d):` is rejected, and `with (a, b):` / `with (a,):` is mis-parsed as ONE item whose context manager is a tuple (which fails at run time)",
    [("with (a as b, c as d): pass\n", "exec"), ("with (a, b): pass\n", "exec")],
    {"reject", "differs"},
    sig=r"code: as|withitem\.context_expr|With\.items",
)
def d_with_paren(u):
    ed = []
    for n in u.nodes(ast.With, ast.AsyncWith):
        first = n.items[0].context_expr
        c, i = u.prev_char(u.a(first))
        # the `(` that opens the item list is the first token after `with`
        kw_end = u.srcb.find(b"with", u.a(n)) + 4
        c0, i0 = u.next_char(kw_end)
        if c0 != "(" or i0 >= u.a(first) and i0 != u.a(first):
            continue
        if i0 == u.a(first):
            continue  # the parenthesis belongs to the first expression itself
        if len(n.items) == 1 and n.items[0].optional_vars is None and u.next_char(u.b(first))[0] != ",":
            continue  # `with (a):` is an ordinary parenthesised expression
        last = n.items[-1].optional_vars or n.items[-1].context_expr
        # up to the `)` that closes the list
        c1, i1 = u.next_char(u.b(last))
        if c1 == ",":
            c1, i1 = u.next_char(i1 + 1)
        if c1 != ")":
            continue
        items = ", ".join(ast.unparse(it) for it in n.items)
        ed.append((i0, i1 + 1, (" " + items).encode("utf-8")))
    return ed


# ---------------------------------------------------------------------------------------------------- parameters
@form(
    "kwarg-annotation-after-vararg",
    "`def f(a, *args, **kw: T)`: with at least one ordinary parameter, a `*args` and no keyword-only parameter, an annotated `**kw` is rejected (that grammar alternative says `POW vfpdef`, the un-annotated form)",
    [("def f(a, *args: T, **kw: T): pass\n", "exec")],
    {"reject"},
    sig=r"code: :",
    fix="xonsh/parsers/v38.py p_typedargslist_t12: `… TIMES tfpdef_opt COMMA POW tfpdef comma_opt` (tfpdef instead of vfpdef; needs the table regenerated)",
)
def d_kwarg_annotation(u):
    ed = []
    for n in u.nodes(ast.FunctionDef, ast.AsyncFunctionDef):
        a = n.args
        if a.args and a.vararg is not None and not a.kwonlyargs and a.kwarg is not None and a.kwarg.annotation is not None:
            colon = u.srcb.find(b":", u.a(a.kwarg), u.a(a.kwarg.annotation))
            if colon >= 0:
                end = u.b(a.kwarg.annotation)
                # parentheses around the annotation belong to it
                opened = u.srcb[colon + 1 : u.a(a.kwarg.annotation)].count(b"(")
                while opened > 0 and u.next_char(end)[0] == ")":
                    end = u.next_char(end)[1] + 1
                    opened -= 1
                ed.append((colon, end, b""))
    return ed


def _x_posonly_defaults(ct):
    for n in ast.walk(ct):
        if isinstance(n, ast.arguments) and n.posonlyargs and (n.args or n.vararg or n.kwonlyargs or n.kwarg):
            k = max(0, len(n.defaults) - len(n.args))
            n.defaults = n.defaults[k:]


@form(
    "posonly-defaults-dropped",
    "defaults of positional-only parameters are dropped when anything follows the `/` (`def f(a=1, /, b=2)`, `def f(d=None, /, **kw)`, `lambda a=1, /, b=2: a`): the function can no longer be called without those arguments / binds the wrong default",
    [("def f(a=1, /, b=2): pass\n", "exec")],
    {"differs"},
    sig=r"arguments\.defaults",
    expect=_x_posonly_defaults,
    fix="xonsh/parsers/v38.py p_typedargslist_posonly / p_varargslist_posonly: `p0.defaults = p[1].defaults + p0.defaults` next to `p0.posonlyargs = p[1].posonlyargs`",
)
def d_posonly_defaults(u):
    for n in u.nodes(ast.arguments):
        if n.posonlyargs and len(n.defaults) > len(n.args) and (n.args or n.vararg or n.kwonlyargs or n.kwarg):
            return True
    return False


# ---------------------------------------------------------------------------------------------------- decorators
def _plain_decorator(e):
    if isinstance(e, ast.Call):
        e = e.func
    while isinstance(e, ast.Attribute):
        e = e.value
    return isinstance(e, ast.Name)


@form(
    "decorator-arbitrary-expression",
    "a decorator that is not `dotted.name` or `dotted.name(args)` (PEP 614: `@a[0]`, `@a().b`, `@(a)`, `@a or b`, `@lambda f: f`) is rejected, or — `@[a][0]`, `@-a` — read as something else entirely",
    [("@a[0]\ndef f(): pass\n", "exec")],
    {"reject", "differs"},
    fix="grammar: `decorator : AT namedexpr_test NEWLINE` (needs the table regenerated; `@(`, `@[`-like xonsh tokens must be split in this position)",
)
def d_decorator(u):
    ed = []
    for n in u.nodes(ast.FunctionDef, ast.AsyncFunctionDef, ast.ClassDef):
        for d in n.decorator_list:
            a, b = u.a(d), u.b(d)
            # include parentheses around the whole decorator expression
            at = u.srcb.rfind(b"@", 0, a + 1)
            line_end = u.srcb.find(b"\n", b)
            tail = u.srcb[b : line_end if line_end >= 0 else len(u.srcb)]
            plain = _plain_decorator(d) and u.srcb[at + 1 : a].strip() == b"" and tail.split(b"#")[0].strip() == b""
            if not plain:
                end = b + len(tail.split(b"#")[0].rstrip()) if tail.split(b"#")[0].strip().strip(b")") == b"" else b
                ed.append((at + 1, end, b"__d__"))
    return ed


# ---------------------------------------------------------------------------------------------------- soft keywords, type statements
@form(
    "type-alias-not-alone-at-top-level",
    "a `type X = …` statement inside any block (function, class, if, …) or sharing its line with another statement (`x = 1; type X = int`) is rejected; only a top-level `type` statement alone on its line is accepted",
    [("if 1:\n    type X = int\n", "exec")],
    {"reject"},
)
def d_type_alias(u):
    ed = []
    for n in u.nodes(ast.TypeAlias):
        p = u.parent.get(n)
        alone = u.srcb[u.srcb.rfind(b"\n", 0, u.a(n)) + 1 : u.a(n)].strip() == b"" and u.next_char(u.b(n))[0] != ";"
        # `next_char` skips newlines: look at the rest of the physical line only
        rest = u.srcb[u.b(n) : (u.srcb.find(b"\n", u.b(n)) if u.srcb.find(b"\n", u.b(n)) >= 0 else len(u.srcb))]
        alone = u.srcb[u.srcb.rfind(b"\n", 0, u.a(n)) + 1 : u.a(n)].strip() == b"" and not rest.strip().startswith(b";")
        if not isinstance(p, ast.Module) or not alone:
            ed += u.replace(n, "pass")
    return ed


_EXPR_START = {"(", "[", "{", "-", "+", "~", "*", "**", "@", "not", "...", "await", "lambda"}


@form(
    "match-name-at-statement-start",
    "a statement that starts with the NAME `match` followed by something that could begin an expression (`match(x)`, `match[x] = 1`, `match -x`, `match * 2`) is taken for a match statement and rejected; `match.x`, `match = 1`, `x = match(y)` are fine",
    [("match(x)\n", "exec")],
    {"reject"},
    modes=("exec", "eval", "single"),
)
def d_match_name(u):
    ed = []
    toks = [t for t in u.toks if t[0] not in (pytok.NL, pytok.COMMENT, pytok.INDENT, pytok.DEDENT)]
    starts = {u.a(n) for n in u.nodes(ast.stmt) if not isinstance(n, ast.Match)}
    if u.mode == "eval" and toks:
        starts.add(toks[0][2])
    for i, t in enumerate(toks[:-1]):
        if t[0] == pytok.NAME and t[1] == "match" and t[2] in starts and toks[i + 1][1] in _EXPR_START:
            ed.append((t[2], t[3], b"m_tch"))
    return ed


@form(
    "type-parameter-named-like-soft-keyword",
    "a type parameter called `match`, `case` or `type` (`def f[match](): …`) is rejected: the rule is `type_param : NAME`, and the lexer never produces NAME for these words",
    [("def f[match](): pass\n", "exec")],
    {"reject"},
    sig=r"code: (match|case|type)",
    fix="xonsh/parsers/v310.py type_param rules: `name` instead of `NAME` (needs the table regenerated)",
)
def d_type_param_softkw(u):
    ed = []
    for n in u.nodes(ast.TypeVar, ast.ParamSpec, ast.TypeVarTuple):
        if n.name in ("match", "case", "type"):
            seg = u.srcb[u.a(n) : u.b(n)]
            k = seg.find(n.name.encode())
            ed.append((u.a(n) + k, u.a(n) + k + len(n.name), b"T_" + n.name.encode()))
    return ed


@form(
    "type-parameter-bound-positions",
    "a type parameter with a bound or constraints (`def f[T: int](): …`, `class C[T: (int, str)]`, `type A[T: int] = T`) parses, but the TypeVar node gets an invalid line range and compile() refuses the tree ('AST node line range (n, 0) is not valid') — the definition cannot run",
    [("def f[T: int](): pass\n", "exec")],
    {"compile"},
    sig=r"AST node line range",
    compile_msg=r"AST node line range \(\d+, 0\) is not valid",
    fix="xonsh/parsers/v310.py p_type_param_bound action: set end_lineno / end_col_offset of the TypeVar (it copies lineno only)",
)
def d_type_param_bound(u):
    return any(n.bound is not None for n in u.nodes(ast.TypeVar))


# ---------------------------------------------------------------------------------------------------- identifiers, strings, tokens
@form(
    "identifier-not-nfkc-normalised",
    "identifiers are not NFKC-normalised (PEP 3131): `µ = 1`, `ﬁ`, full-width letters keep their spelling in xonsh's tree while CPython stores the normalised name — the two spellings name different variables",
    [("µ = 1\n", "exec")],
    {"differs"},
    sig=r"\.(id|arg|name|attr|asname|names|rest|kwd_attrs|module)",
    fix="xonsh/parsers/lexer.py handle_name: value = unicodedata.normalize('NFKC', token.string) for non-ASCII names",
)
def d_nfkc(u):
    ed = []
    for ty, s, a, b in u.toks:
        if ty == pytok.NAME and not s.isascii() and unicodedata.normalize("NFKC", s) != s:
            ed.append((a, b, unicodedata.normalize("NFKC", s).encode("utf-8")))
    return ed


@form(
    "identifier-with-non-word-character",
    "identifiers containing characters that are XID_Continue but not `\\w` for the `re` module (combining marks: `עִברִית`, `é`; `a·b`; `℘`) are rejected: the tokenizer's Name pattern is `\\w+`",
    [("x = a·b\n", "exec")],
    {"reject"},
    fix="xonsh/parsers/tokenize.py Name: scan with str.isidentifier() over the longest run of XID_Continue characters, as CPython's tokenizer does",
)
def d_nonword_identifier(u):
    ed = []
    for ty, s, a, b in u.toks:
        if ty == pytok.NAME and not s.isascii() and not re.fullmatch(r"\w+", s):
            ed.append((a, b, b"n_" + str(len(s)).encode()))
    return ed


_STR_PREFIX = re.compile(r"^([A-Za-z]*)(\"\"\"|'''|\"|')")


@form(
    "u-prefix-kind",
    "Constant.kind is None for a `u'…'` literal (CPython: 'u') — no effect at run time, but the tree differs (ast.unparse drops the prefix)",
    [("x = u'a'\n", "exec")],
    {"differs"},
    sig=r"Constant\.kind",
    fix="xonsh/parsers/base.py string atom action: kind='u' when the first literal has a u/U prefix",
)
def d_u_prefix(u):
    ed = []
    for ty, s, a, b in u.toks:
        if ty == pytok.STRING:
            m = _STR_PREFIX.match(s)
            if m and m.group(1).lower() == "u":
                ed.append((a, a + 1, b""))
    return ed


def _redir_tables():
    """the stream names and composite redirect spellings of xonsh's tokenizer, read from the code under test"""
    try:
        common.setup_repo_imports()
        import xonsh.parsers.tokenize as xt

        return set(xt._redir_names) - {"&"}, set(xt._redir_map)
    except Exception:  # noqa: BLE001
        return {"out", "all", "err", "e", "2", "a", "1", "o"}, set()


@form(
    "redirect-lookalike-comparison",
    "a comparison / shift whose left operand ends in a token spelled like a stream name of the subprocess language (out, all, err, e, o, a, 1, 2) glued to `>`: `1>=1`, `a>=b`, `f.a>=b`, `o>>=x` (redirect + `=`), and `1>2j`, `a>p1`, `e>out2` (a composite redirect like `1>2`, `a>p`, `e>out` matched as a PREFIX of the text) are split at the wrong place, and the re-tokenisation in Python mode cannot repair it: rejected",
    [("1>=1\n", "exec"), ("x = 1>2j\n", "exec")],
    {"reject"},
    fix="xonsh/parsers/tokenize.py: IORedirect must not match when followed by `=` or by a word character: append `(?![=\\w.])` to the IORedirect pattern",
)
def d_redirect_lookalike(u):
    ed = []
    names, rmap = _redir_tables()
    toks = u.toks
    for i, t in enumerate(toks[:-1]):
        n = toks[i + 1]
        if t[0] in (pytok.NAME, pytok.NUMBER) and t[1] in names and n[0] == pytok.OP and n[2] == t[3]:
            if n[1] in (">=", ">>="):
                ed.append((t[3], t[3], b" "))
            elif n[1] == ">" and i + 2 < len(toks) and toks[i + 2][2] == n[3] and toks[i + 2][0] in (pytok.NAME, pytok.NUMBER):
                w = toks[i + 2][1]
                if any(w.startswith(m.split(">", 1)[1]) and w != m.split(">", 1)[1] for m in rmap if m.split(">", 1)[0] == t[1] and ">" in m and not m.split(">", 1)[1].startswith("&")):
                    ed.append((t[3], t[3], b" "))
    return ed


@form(
    "and-or-glued-to-next-token",
    "`and` / `or` not surrounded by blanks (`x and(y)`, `a or-1`, `(a)or b`, `'s'or x`) come out of the lexer as NAME (NEED_WHITESPACE test in handle_name: the character before and the one after must be blanks) and the expression is rejected",
    [("x = a and(b)\n", "exec")],
    {"reject"},
    fix="xonsh/parsers/lexer.py handle_name: apply the NEED_WHITESPACE test in subprocess mode only (in Python mode `and`/`or` are always keywords)",
)
def d_and_or_glued(u):
    ed = []
    toks = u.toks
    for i, t in enumerate(toks):
        if t[0] == pytok.NAME and t[1] in ("and", "or"):
            before = u.srcb[t[2] - 1 : t[2]] if t[2] > 0 else b"\n"
            after = u.srcb[t[3] : t[3] + 1]
            if before not in (b" ", b"\t", b"\n", b"\x0c", b"\r"):
                ed.append((t[2], t[2], b" "))
            if after not in (b" ", b"\t", b"\n", b"\x0c", b"\r", b"\\", b""):
                ed.append((t[3], t[3], b" "))
    return ed


# ---------------------------------------------------------------------------------------------------- targets (Lean: C01_targets_cex)
@form(
    "empty-sequence-target",
    "an empty tuple / list as an assignment or del target (`() = x`, `[] = gen`, `del ()`, `a, () = x`) is rejected by context_check._not_assignable (\"can't assign to ()\"); CPython accepts it (it asserts that the right-hand side is empty)",
    [("() = ()\n", "exec"), ("[] = []\n", "exec"), ("del ()\n", "exec")],
    {"reject"},
    sig=r"can't (assign to|delete) \(\)",
    fix="xonsh/parsers/context_check.py _not_assignable: delete the two lines `if len(x.elts) == 0: return \"()\"`",
)
def d_empty_target(u):
    ed = []
    for n in u.nodes(ast.Assign, ast.Delete):
        for t in n.targets:
            for e in ast.walk(t):
                if isinstance(e, (ast.Tuple, ast.List)) and not e.elts and isinstance(e.ctx, (ast.Store, ast.Del)):
                    ed += u.replace(e, "__t__")
    return ed


# ---------------------------------------------------------------------------------------------------- whole-input forms
@form(
    "leading-bare-tuple-statement",
    "an input whose FIRST statement is an expression statement that is a bare tuple (`a, b`, `f(x),`, `1, 2`): the parser commits to rule eval_input; alone, the input comes back as an `Expression` tree (compile(tree, 'exec') refuses it); followed by more statements it is rejected",
    [("a, b\n", "exec"), ("a, b\nc = 1\n", "exec")],
    {"differs", "reject"},
    modes=("exec",),
    fix="grammar: drop `eval_input` from start_symbols (parse eval mode through file_input and unwrap `Module([Expr(e)])`), needs the table regenerated",
)
def d_leading_tuple(u):
    body = u.tree.body
    if body and isinstance(body[0], ast.Expr) and u.bare_tuple(body[0].value) and not isinstance(body[0].value.elts[0], ast.Starred):
        rest = u.srcb[u.b(body[0]) : (u.srcb.find(b"\n", u.b(body[0])) if u.srcb.find(b"\n", u.b(body[0])) >= 0 else len(u.srcb))]
        if not rest.strip().startswith(b";"):
            return u.wrap_bare_tuple(body[0].value)
    return []


@form(
    "eval-input-with-trailing-newline",
    "in eval mode an expression followed by a newline (`'1+2\\n'`, which ast.parse and eval() accept) comes back as a Module (rule file_input wins over eval_input); compile(tree, 'eval') refuses it",
    [("1+2\n", "eval")],
    {"differs"},
    sig=r"^\$ xonsh=\('Module'",
    modes=("eval",),
    fix="xonsh/parsers/base.py BaseParser.parse: in eval mode strip trailing newlines before parsing (or convert Module([Expr(e)]) to Expression(e))",
)
def d_eval_newline(u):
    if u.mode == "eval" and u.src.rstrip(" \t\f") != u.src.rstrip(" \t\f\r\n"):
        return [(len(u.srcb.rstrip()), len(u.srcb), b"")]
    return []


# ---------------------------------------------------------------------------------------------------- match statements
@form(
    "match-sequence-last-element-sequence",
    "a sequence pattern whose LAST sub-pattern is itself a bracketed / parenthesised sequence pattern, with no trailing comma (`case [a, [b]]`, `case [[]]`, `case (a, ())`, `case a, [b]`), is flattened: the inner sequence's elements are spliced into the outer one — the case matches different subjects and binds differently",
    [("match x:\n    case [a, [b]]: pass\n", "exec")],
    {"differs"},
    sig=r"MatchSequence\.patterns",
    fix="xonsh/parsers/v310.py sequence-pattern action: wrap the last element instead of extending with it when it is a MatchSequence (the action uses `+`/extend on a value that is already a list)",
)
def d_match_seq_last(u):
    ed = []
    for n in u.nodes(ast.MatchSequence):
        if n.patterns and isinstance(n.patterns[-1], ast.MatchSequence) and u.next_char(u.b(n.patterns[-1]))[0] != ",":
            ed.append((u.b(n.patterns[-1]), u.b(n.patterns[-1]), b","))
    return ed


@form(
    "match-subject-bare-walrus",
    "an unparenthesised assignment expression as the subject of a match statement (`match w := x:`) is rejected",
    [("match w := x:\n    case _: pass\n", "exec")],
    {"reject"},
    sig=r"code: :=",
)
def d_match_walrus(u):
    ed = []
    for n in u.nodes(ast.Match):
        s = n.subject
        for e in [s] + (s.elts if u.bare_tuple(s) else []):
            if isinstance(e, ast.NamedExpr) and not u.parenthesised(e):
                ed += u.wrap(e)
    return ed


# ---------------------------------------------------------------------------------------------------- parameters (PEP 646)
@form(
    "vararg-star-annotation",
    "`def f(*args: *Ts)` (PEP 646: a starred annotation on *args) is rejected",
    [("def f(*a: *Ts): pass\n", "exec")],
    {"reject"},
    sig=r"code: \*",
)
def d_vararg_star_annotation(u):
    ed = []
    for n in u.nodes(ast.arguments):
        if n.vararg is not None and isinstance(n.vararg.annotation, ast.Starred):
            ed.append((u.a(n.vararg.annotation), u.a(n.vararg.annotation) + 1, b""))
    return ed


# ---------------------------------------------------------------------------------------------------- f-strings
def _fstrings(u):
    """top-level f-string literals of the unit: [(prefix, quote, [(kind, source_slice, start_byte, end_byte)])] where the pieces are
    python's own FSTRING_MIDDLE tokens taken as SOURCE SLICES (so doubled braces and escapes are seen as written)"""
    out, stack = [], []
    toks = u.toks
    for i, (ty, s, a, b) in enumerate(toks):
        if ty == pytok.FSTRING_START:
            m = re.match(r"(?i)([a-z]*)('''|\"\"\"|'|\")", s)
            stack.append({"prefix": m.group(1).lower(), "quote": m.group(2), "pieces": [], "a": a, "b": None, "depth": len(stack)})
        elif ty == pytok.FSTRING_END and stack:
            f = stack.pop()
            f["b"] = b
            f["end_a"] = a
            out.append(f)
        elif ty == pytok.FSTRING_MIDDLE and stack:
            nxt = toks[i + 1][2] if i + 1 < len(toks) else b
            stack[-1]["pieces"].append((u.srcb[a:nxt].decode("utf-8", "replace"), a, nxt))
    return out


def _joined_top(u):
    """JoinedStr nodes that are literals of their own (not the format_spec of a field)"""
    return [n for n in u.nodes(ast.JoinedStr) if not isinstance(u.parent.get(n), ast.FormattedValue)]


def _coarse(u, n):
    return u.replace(n, " __f__ ")


@form(
    "fstring-backslash-before-brace",
    "in a non-raw f-string a backslash directly before `{` or `}` (`f'\\{x}'`, an invalid escape CPython only warns about) makes xonsh treat the brace as escaped and reject the literal (\"single '}' is not allowed\")",
    [("f'\\{x}'\n", "exec")],
    {"reject"},
    sig=r"single '}'|code: ",
)
def d_fstring_backslash_brace(u):
    ed = []
    for f in _fstrings(u):
        if "r" in f["prefix"]:
            continue
        for text, a, b in f["pieces"]:
            for m in re.finditer(r"(?<!\\)(?:\\\\)*(\\)(?=[{}])", text):
                k = a + len(text[: m.start(1)].encode("utf-8"))
                ed.append((k, k + 1, b"/"))
            if re.search(r"(?<!\\)(?:\\\\)*\\$", text) and u.srcb[b : b + 1] in (b"{", b"}"):
                ed.append((b - 1, b, b"/"))
    return ed


@form(
    "raw-fstring-backslash-quote",
    "in a raw f-string a backslash followed by the delimiter quote ends the literal early for xonsh's tokenizer: single-quoted anywhere (`rf'\\'{x}'`, `rf'a\\'b'`), triple-quoted directly before the closing delimiter (`rf\"\"\"\\\"\"\"\"`): rejected",
    [("rf'\\'{x}'\n", "exec"), ('v = rf"""\\""""\n', "exec")],
    {"reject"},
)
def d_raw_fstring_quote(u):
    ed = []
    for f in _fstrings(u):
        if "r" not in f["prefix"]:
            continue
        q = f["quote"][0]
        for text, a, b in f["pieces"]:
            if len(f["quote"]) == 1:
                for m in re.finditer(re.escape("\\" + q), text):
                    k = a + len(text[: m.start() + 1].encode("utf-8"))
                    ed.append((k, k + 1, b"q"))
            elif b == f.get("end_a") and text.endswith("\\" + q):
                # triple-quoted: only a backslash-quote directly before the closing delimiter (`rf"""\""""`)
                ed.append((b - 1, b, b"q"))
    return ed


@form(
    "fstring-named-unicode-escape",
    "`\\N{NAME}` inside a non-raw f-string (`f'\\N{BULLET}'`) is read as the text `\\N` followed by a replacement field `{NAME}` (or rejected when the name has blanks) — the character is lost and an undefined name is evaluated",
    [("f'\\N{BULLET}'\n", "exec")],
    {"differs", "reject"},
    fix="xonsh/parsers/tokenize.py f-string scanner: in a non-raw f-string `\\N{` … `}` is part of the literal text, not a field",
)
def d_fstring_named_escape(u):
    ed = []
    for f in _fstrings(u):
        if "r" in f["prefix"]:
            continue
        for text, a, b in f["pieces"]:
            for m in re.finditer(r"(?<!\\)(?:\\\\)*(\\N\{([^}]*)\})", text):
                try:
                    ch = unicodedata.lookup(m.group(2))
                except KeyError:
                    continue
                k = a + len(text[: m.start(1)].encode("utf-8"))
                ed.append((k, k + len(m.group(1).encode("utf-8")), ("\\U%08x" % ord(ch)).encode()))
    return ed


@form(
    "fstring-nested-field-with-spec-or-conversion",
    "a replacement field nested in a format spec that has its own conversion or format spec (`f'{a:{b:{c}}}'`, `f'{x:{y!r}}'`) is rejected",
    [("f'{x:{y!r}}'\n", "exec")],
    {"reject"},
    sig=r"code: [:!]",
)
def d_fstring_nested_spec(u):
    ed = []
    for n in _joined_top(u):
        for fv in ast.walk(n):
            if isinstance(fv, ast.FormattedValue) and fv.format_spec is not None:
                for inner in fv.format_spec.values:
                    if isinstance(inner, ast.FormattedValue) and (inner.conversion != -1 or inner.format_spec is not None):
                        ed += _coarse(u, n)
    return ed


@form(
    "fstring-brace-display-in-format-spec",
    "inside a format spec CPython 3.12 reads `{{…}}` as a nested field holding a set / dict display (`f'{x:{{}}}'`); xonsh reads doubled braces as literal text",
    [("f'{x:{{}}}'\n", "exec")],
    {"differs", "reject"},
)
def d_fstring_spec_display(u):
    ed = []
    for n in _joined_top(u):
        for fv in ast.walk(n):
            if isinstance(fv, ast.FormattedValue) and fv.format_spec is not None:
                for inner in ast.walk(fv.format_spec):
                    if isinstance(inner, ast.FormattedValue) and isinstance(inner.value, (ast.Dict, ast.Set, ast.DictComp, ast.SetComp)) and u.srcb[u.a(inner.value) - 1 : u.a(inner.value)] == b"{":
                        ed += _coarse(u, n)
    return ed


@form(
    "fstring-bare-yield",
    "an unparenthesised yield expression in a replacement field (`f'{yield}'`, `f'{yield x}'`) is rejected",
    [("def g():\n    f'{yield}'\n", "exec")],
    {"reject"},
    sig=r"code: yield",
)
def d_fstring_yield(u):
    ed = []
    for fv in u.nodes(ast.FormattedValue):
        if isinstance(fv.value, (ast.Yield, ast.YieldFrom)) and not u.parenthesised(fv.value):
            ed += u.wrap(fv.value)
    return ed


@form(
    "fstring-newline-in-format-spec",
    "a single-quoted f-string whose format spec contains a newline (`f'{x:\\n}'` with a real line break, accepted by CPython 3.12) is rejected ('EOL while scanning f-string')",
    [("f'{x:\n}'\n", "exec")],
    {"reject"},
    sig=r"EOL while scanning",
)
def d_fstring_newline_spec(u):
    ed = []
    for n in _joined_top(u):
        m = _STR_PREFIX.match(u.srcb[u.a(n) : u.a(n) + 8].decode("utf-8", "replace"))
        if not m or len(m.group(2)) != 1:
            continue  # triple-quoted literals may hold line breaks anywhere
        for fv in ast.walk(n):
            if isinstance(fv, ast.FormattedValue) and fv.format_spec is not None and b"\n" in u.srcb[u.b(fv.value) : u.b(fv)]:
                ed += _coarse(u, n)
    return ed


@form(
    "fstring-escape-in-format-spec",
    "a backslash escape inside the format spec of a non-raw f-string (`f'{x:\\n}'`, `f'{x:\\u2603}'`) is not decoded: xonsh passes the two characters `\\n` to __format__, CPython the newline",
    [("f'{x:\\n}'\n", "exec")],
    {"differs"},
    sig=r"format_spec\.JoinedStr\.values\[\d+\]\.Constant\.value",
)
def d_fstring_spec_escape(u):
    ed = []
    raw_spans = [(f["a"], f["b"]) for f in _fstrings(u) if "r" in f["prefix"]]
    for n in _joined_top(u):
        if any(a <= u.a(n) < b for a, b in raw_spans):
            continue
        for fv in ast.walk(n):
            if isinstance(fv, ast.FormattedValue) and fv.format_spec is not None and b"\\" in u.srcb[u.a(fv.format_spec) : u.b(fv.format_spec)]:
                ed += _coarse(u, n)
    return ed


@form(
    "fstring-debug-field-with-comment",
    "a self-documenting field (`=`) whose expression part carries a comment (multi-line `f\"{1+2 = # c\\n}\"`) gets a different text before the value than CPython's",
    [('f"""{1+2 = # c\n}"""\n', "exec")],
    {"differs"},
    sig=r"JoinedStr\.values\[\d+\]\.Constant\.value",
)
def d_fstring_debug_comment(u):
    ed = []
    for n in _joined_top(u):
        seg = u.srcb[u.a(n) : u.b(n)]
        if b"#" in seg and b"=" in seg and n.lineno != n.end_lineno:
            ed += _coarse(u, n)
    return ed


_COOKIE = re.compile(r"^[ \t\f]*#.*?coding[:=][ \t]*([-\w.]+)")


@form(
    "coding-cookie-in-text-input",
    "source text (a str) whose first or second line carries a PEP 263 coding cookie: xonsh's tokenizer re-encodes the text as UTF-8 and then decodes it with the cookie's codec — an unknown codec is a SyntaxError ('unknown encoding'), another codec garbles every non-ASCII character; CPython ignores the cookie of text input",
    [("# -*- coding: uft-8 -*-\nx = 1\n", "exec"), ("# -*- coding: latin-1 -*-\nx = 'é'\n", "exec")],
    {"reject", "differs"},
    modes=("exec", "single", "eval"),
    fix="xonsh/parsers/lexer.py get_tokens / tokenize.tokenize: do not run detect_encoding on text that was a str (pass encoding='utf-8' explicitly)",
)
def d_coding_cookie(u):
    ed = []
    pos = 0
    for line in u.src.split("\n")[:2]:
        m = _COOKIE.match(line)
        if m and m.group(1).lower().replace("_", "-") not in ("utf-8", "utf8"):
            k = pos + len(line[: m.start(1)].encode("utf-8"))
            ed.append((k, k + len(m.group(1).encode("utf-8")), b"utf-8"))
        if line.strip() and not line.lstrip().startswith("#"):
            break
        pos += len(line.encode("utf-8")) + 1
    return ed


# ---------------------------------------------------------------------------------------------------- displays, operators
@form(
    "first-element-set-display-absorbs-siblings",
    "a bare tuple (value of an assignment / augmented assignment, for-loop iterable, expression statement) or a set display whose FIRST element is a set display: `x = {a}, c` is built as the set `{a, c}` (CPython: the tuple `({a}, c)`), `{{a}, b}` as `{{a, b}}`; as a later expression statement (`y\\n{a}, c`) the parser crashes with TypeError — the grammar actions take anything with an `.elts` attribute for the sequence being built",
    [("x = {a}, c\n", "exec"), ("{{a}, b}\n", "exec")],
    {"differs", "crash"},
    sig=r"xonsh=\('Set'|Set\.elts|xonsh=\('Expression', \('body', \('Set'|TypeError: object of type 'Set'",
    fix="xonsh/parsers/base.py ensure_has_elts / the testlist actions: test `isinstance(x, ast.Tuple)` (a tuple built by the rule itself) instead of has_elts(x), which is also true of a Set / List element",
)
def d_first_set(u):
    ed = []
    for n in u.nodes(ast.Tuple, ast.Set):
        if not n.elts or not isinstance(n.elts[0], ast.Set):
            continue
        if isinstance(n, ast.Tuple) and not u.bare_tuple(n):
            continue
        if isinstance(n, ast.Set) and len(n.elts) < 2:
            continue
        ed += u.replace(n.elts[0], "__s__")
    return ed


@form(
    "list-display-single-parenthesised-generator",
    "a list display whose only element is a parenthesised generator expression, without trailing comma (`[(x for x in y)]`), is built as a list comprehension `[x for x in y]` — a list of the items instead of a list holding one generator",
    [("[(x for x in y)]\n", "exec")],
    {"differs"},
    sig=r"xonsh=\('ListComp'",
    fix="xonsh/parsers/base.py atom_lbracket action: only a testlist_comp that IS a comprehension (not a parenthesised GeneratorExp element) becomes a ListComp",
)
def d_list_single_genexp(u):
    ed = []
    for n in u.nodes(ast.List):
        if len(n.elts) == 1 and isinstance(n.elts[0], ast.GeneratorExp) and u.srcb[u.b(n) - 2 : u.b(n) - 1] != b",":
            c, i = u.prev_char(u.b(n) - 1)
            if c != ",":
                ed.append((u.b(n) - 1, u.b(n) - 1, b","))
    return ed


@form(
    "matmul-glued-to-parenthesis",
    "the matrix-multiplication operator directly followed by an opening parenthesis (`a@(b)`, `a @(b)`) is tokenised as xonsh's `@(` and rejected",
    [("a@(b)\n", "exec")],
    {"reject"},
    sig=r"code: @\(",
)
def d_matmul_paren(u):
    ed = []
    toks = u.toks
    decos = set()
    for n in u.nodes(ast.FunctionDef, ast.AsyncFunctionDef, ast.ClassDef):
        for d in n.decorator_list:
            decos.add(u.srcb.rfind(b"@", 0, u.a(d) + 1))
    for i, t in enumerate(toks[:-1]):
        if t[0] == pytok.OP and t[1] == "@" and t[2] not in decos and toks[i + 1][1] == "(" and toks[i + 1][2] == t[3]:
            ed.append((t[3], t[3], b" "))
    return ed


# ====================================================================================================== classification
def classify(unit_src, unit_mode, r, which="repo"):
    """explain the failure `r` of a minimal unit by known forms: a form applies when its syntactic predicate holds on the unit AND
    the failure has the form's signature; its cure (a targeted source edit, or the form's model of the wrong tree) is applied and
    the unit re-checked, until it passes.  -> (list of forms, None) when explained, (None, (residual_src, residual_failure)) when
    something is left that no known form explains."""
    applied, cur, cur_r = [], unit_src, r
    for _ in range(8):
        try:
            u = U(cur, unit_mode)
        except (SyntaxError, ValueError):
            return None, (cur, cur_r)
        pick = None
        for f in FORMS:
            if f in applied or unit_mode not in f.modes or not f.matches_failure(cur_r):
                continue
            try:
                det = f.detect(u)
            except Exception as e:  # noqa: BLE001  (a classifier tripping over exotic input explains nothing)
                det = None
                del e
            if det:
                pick = (f, det)
                break
        if pick is None:
            return None, (cur, cur_r)
        f, det = pick
        applied.append(f)
        if isinstance(det, list):
            cur = apply_edits(u.srcb, det)
        r2 = check(cur, unit_mode, which, expect=[g for g in applied if g.expect or g.compile_msg])
        if r2 is None:
            return _minimal_set(unit_src, unit_mode, which, applied), None
        if r2 == "skip":
            return None, (cur, {"kind": "cure-invalid", "detail": f"the cure of {f.key} produced text CPython rejects"})
        cur_r = r2
    return None, (cur, cur_r)


def _minimal_set(unit_src, unit_mode, which, applied):
    """drop forms whose cure was not needed"""
    if len(applied) < 2:
        return applied
    keep = list(applied)
    for f in list(applied):
        trial = [g for g in keep if g is not f]
        cur = unit_src
        ok = True
        for g in trial:
            try:
                det = g.detect(U(cur, unit_mode))
            except Exception:  # noqa: BLE001
                ok = False
                break
            if isinstance(det, list) and det:
                cur = apply_edits(cur.encode("utf-8"), det)
        if ok and check(cur, unit_mode, which, expect=[g for g in trial if g.expect or g.compile_msg]) is None:
            keep = trial
    return keep


def examine(src, mode, which="repo"):
    """full pipeline for one input -> None (holds) | "skip" | {"failure":…, "units":[{"src","mode","failure","forms":[keys]|None,"residual":…}]}"""
    r, units = failing_units(src, mode, which)
    if r in (None, "skip"):
        return r
    out = {"failure": r, "units": []}
    for us, um, ur in units:
        if ur["kind"] == "unlocalised":
            # could not be cut down: classify the input as a whole
            whole_r = check(us, um, which)
            forms, residual = classify(us, um, whole_r, which) if whole_r not in (None, "skip") else (None, (us, ur))
        else:
            forms, residual = classify(us, um, ur, which)
        out["units"].append({"src": us, "mode": um, "failure": ur, "forms": [f.key for f in forms] if forms is not None else None,
                             "residual": None if residual is None else {"src": residual[0], "failure": residual[1]}})
    return out


# ====================================================================================================== worker pool
def _init_worker(fresh_dir, timeout):
    global FRESH_DIR, PARSE_TIMEOUT
    FRESH_DIR, PARSE_TIMEOUT = fresh_dir, timeout
    warnings.simplefilter("ignore")
    sys.setrecursionlimit(6000)
    common.setup_repo_imports()


def _record(stream, origin, src, mode, which, res, stats):
    stats["evaluations"] = stats.get("evaluations", 0) + 1
    stats[f"stream/{stream}"] = stats.get(f"stream/{stream}", 0) + 1
    stats[f"mode/{mode}"] = stats.get(f"mode/{mode}", 0) + 1
    if f"sample/{stream}" not in stats and len(src) < 400:
        stats[f"sample/{stream}"] = {"mode": mode, "origin": origin, "source": src, "verdict": "holds" if res is None else ("skipped" if res == "skip" else res["failure"]["kind"])}
    if res == "skip":
        stats["skipped: CPython itself rejects / cannot handle the text"] = stats.get("skipped: CPython itself rejects / cannot handle the text", 0) + 1
        return None
    if res is None:
        stats["holds"] = stats.get("holds", 0) + 1
        return None
    stats["fails"] = stats.get("fails", 0) + 1
    if res["failure"]["kind"] == "hang" or any(u["failure"]["kind"] == "hang" for u in res["units"]):
        stats["HANG (also a C03 violation)"] = stats.get("HANG (also a C03 violation)", 0) + 1
    return {"stream": stream, "origin": origin, "mode": mode, "parser": which, "source": src if len(src) <= 1500 else src[:1500] + "…", "failure": res["failure"], "units": res["units"]}


def _stmt_text(srcb, offs, node):
    return unit_text(srcb, offs, node)


def _task(task):
    """runs in a worker process (its own parser objects); -> (failure records, stats)"""
    kind = task["kind"]
    whiches = task.get("parsers", ["repo"])
    out, stats = [], {}
    seen = set()

    def run(stream, origin, src, mode):
        key = (src, mode)
        if key in seen:
            return
        seen.add(key)
        for which in whiches:
            try:
                res = examine(src, mode, which)
            except RecursionError:
                res = "skip"
            rec = _record(stream, origin, src, mode, which, res, stats)
            if rec:
                out.append(rec)

    if kind == "files":
        for path in task["paths"]:
            try:
                with pytok.open(path) as f:
                    src = f.read()
                tree = ast.parse(src)
            except (SyntaxError, ValueError, UnicodeDecodeError, RecursionError, MemoryError, OSError, LookupError):
                stats["files CPython does not parse (skipped)"] = stats.get("files CPython does not parse (skipped)", 0) + 1
                continue
            stats["files"] = stats.get("files", 0) + 1
            run("files", path, src, "exec")
            # every top-level statement alone: exec, single, and (expression statements) eval
            srcb, offs = src.encode("utf-8"), line_offsets(src)
            for st in tree.body:
                text = _stmt_text(srcb, offs, st)
                if not stands_alone(st, text):
                    continue
                run("files/statement", path, text, "exec")
                if task.get("modes"):
                    compound = "\n" in text.rstrip("\n")
                    run("files/statement", path, text + ("\n" if compound else ""), "single")
                    if isinstance(st, ast.Expr):
                        et = srcb[span(st.value, offs)[0] : span(st.value, offs)[1]].decode("utf-8")
                        try:
                            ast.parse(et, mode="eval")
                            run("files/statement", path, et, "eval")
                        except (SyntaxError, ValueError):
                            pass
    elif kind == "gen":
        import random

        rng = random.Random(task["seed"])
        for _ in range(task["count"]):
            mode = rng.choice(["exec", "exec", "exec", "eval", "single"])
            src, kinds = c01gen.gen_program(rng, mode, depth=rng.choice(task["depths"]))
            for k in kinds:
                stats[f"node/{k}"] = stats.get(f"node/{k}", 0) + 1
            if src is None:
                stats["generated trees CPython's unparse/parse round trip rejects (dropped)"] = stats.get("generated trees CPython's unparse/parse round trip rejects (dropped)", 0) + 1
                continue
            run("generated", f"seed {task['seed']}", src, mode)
            if mode == "exec":
                for _ in range(task.get("rewrites", 2)):
                    nm, new = c01gen.rewrite(src, rng)
                    if new:
                        run("rewrites", f"seed {task['seed']} {nm}", new, "exec")
                        stats[f"rewrite/{nm}"] = stats.get(f"rewrite/{nm}", 0) + 1
    elif kind == "texts":
        for origin, src, mode in task["items"]:
            run(task.get("stream", "corners"), origin, src, mode)
    return out, stats


class Pool:
    def __init__(self, fresh_dir, timeout):
        from concurrent.futures import ProcessPoolExecutor

        self.n = max(2, min(16, os.cpu_count() or 2))
        # workers are forked BEFORE any parser object (and its loader thread) exists in this process
        self.ex = ProcessPoolExecutor(self.n, initializer=_init_worker, initargs=(fresh_dir, timeout))

    def map(self, tasks):
        from concurrent.futures.process import BrokenProcessPool

        futs = [self.ex.submit(_task, t) for t in tasks]
        for f, t in zip(futs, tasks):
            try:
                yield f.result(timeout=3600)
            except BrokenProcessPool as e:
                raise common.InfraError(f"a parser worker died ({t.get('kind')}): {e}")

    def close(self):
        # the check leaves through os._exit: workers that still hold queued work would be orphaned (and keep the caller's pipes
        # open), so they are terminated here, not just told to finish
        procs = list(getattr(self.ex, "_processes", {}).values())
        self.ex.shutdown(wait=False, cancel_futures=True)
        for p in procs:
            try:
                p.terminate()
            except Exception:  # noqa: BLE001
                pass
        for p in procs:
            try:
                p.join(2)
                if p.is_alive():
                    p.kill()
            except Exception:  # noqa: BLE001
                pass


# ====================================================================================================== parser-table freshness
_REGEN = r"""
import sys, os, json
sys.dont_write_bytecode = True
sys.path.insert(0, sys.argv[1])
import warnings; warnings.simplefilter("ignore")
from xonsh.parser import Parser
p = Parser(yacc_optimize=False, yacc_table="c01_fresh_table", outputdir=sys.argv[2])
p._yacc_loader.ready.wait()
if p._yacc_loader.error is not None:
    print(json.dumps({"error": repr(p._yacc_loader.error)[:500]})); sys.exit(0)
import importlib.util
def load(path, name):
    spec = importlib.util.spec_from_file_location(name, path)
    m = importlib.util.module_from_spec(spec); spec.loader.exec_module(m); return m
import xonsh.parsers.base as B, inspect
src_default = inspect.signature(B.BaseParser.__init__).parameters["yacc_table"].default
mod = __import__(src_default, fromlist=["x"])
fresh = load(os.path.join(sys.argv[2], "c01_fresh_table.py"), "c01_fresh_cmp")
def prods(m):
    return [(p[0], p[1], p[2], p[3]) for p in m._lr_productions]
out = {"table_module": src_default, "table_file": getattr(mod, "__file__", None), "states": len(mod._lr_action), "productions": len(mod._lr_productions),
       "fresh_states": len(fresh._lr_action), "fresh_productions": len(fresh._lr_productions)}
diffs = []
pa, pb = prods(mod), prods(fresh)
if pa != pb:
    sa, sb = set(pa), set(pb)
    diffs.append({"what": "productions", "only_in_loaded_table": [list(map(str, x)) for x in sorted(sa - sb, key=str)[:6]], "only_in_grammar": [list(map(str, x)) for x in sorted(sb - sa, key=str)[:6]]})
if mod._lr_action != fresh._lr_action:
    st = sorted(s for s in set(mod._lr_action) | set(fresh._lr_action) if mod._lr_action.get(s) != fresh._lr_action.get(s))
    diffs.append({"what": "action", "first_differing_state": st[0] if st else None, "differing_states": len(st)})
if mod._lr_goto != fresh._lr_goto:
    st = sorted(s for s in set(mod._lr_goto) | set(fresh._lr_goto) if mod._lr_goto.get(s) != fresh._lr_goto.get(s))
    diffs.append({"what": "goto", "first_differing_state": st[0] if st else None, "differing_states": len(st)})
if getattr(mod, "_lr_signature", None) != getattr(fresh, "_lr_signature", None):
    diffs.append({"what": "signature (tokens / precedence / start symbol)"})
out["diffs"] = diffs
print(json.dumps(out))
"""


def regenerate_table(ctx):
    """regenerate the LALR table with PLY from the working-tree grammar in the scratch directory (never in /repo) and compare it
    with the table module xonsh loads unvalidated.  -> (fresh_dir or None, report)"""
    d = common.scratch_root() / "c01-table"
    d.mkdir(parents=True, exist_ok=True)
    env = dict(os.environ)
    env.pop("PYTHONPATH", None)
    try:
        p = subprocess.run(["/venv/bin/python", "-c", _REGEN, str(common.REPO), str(d)], capture_output=True, text=True, timeout=600, env=env)
    except subprocess.TimeoutExpired:
        return None, {"error": "table generation timed out"}
    lines = [l for l in p.stdout.strip().splitlines() if l.startswith("{")]
    if p.returncode != 0 or not lines:
        return None, {"error": "table generation failed: " + (p.stderr or p.stdout)[-600:]}
    rep = json.loads(lines[-1])
    if "error" in rep:
        return None, rep
    return str(d), rep


# ====================================================================================================== ties of the Lean models
def _tgt_tags(node):
    """class tags of a non-sequence expression as _not_assignable's chain sees it"""
    import keyword

    cls = type(node).__name__
    tags = [cls]
    if isinstance(node, ast.Constant):
        k = getattr(node, "kind", None)
        if k in XONSH_KINDS:
            tags.append(f"Constant:{k}")
    if isinstance(node, ast.Name) and node.id in keyword.kwlist:
        tags.append("Name:keyword")
    return tags


def _enc_tgt(node):
    if isinstance(node, ast.Starred):
        return [Sym("starred"), _enc_tgt(node.value)]
    if isinstance(node, ast.Tuple):
        return [Sym("tuple"), [_enc_tgt(e) for e in node.elts]]
    if isinstance(node, ast.List):
        return [Sym("list"), [_enc_tgt(e) for e in node.elts]]
    return [Sym("leaf"), _tgt_tags(node)]


def _leaf_nodes():
    """one representative per expression class (with xonsh's Constant markers where its parser sets them)"""
    common.setup_repo_imports()
    import xonsh.parsers.ast as xast

    n = lambda: ast.Name(id="a", ctx=ast.Load())  # noqa: E731
    comp = [ast.comprehension(target=ast.Name(id="i", ctx=ast.Store()), iter=n(), ifs=[], is_async=0)]
    return [
        ast.Name(id="a", ctx=ast.Store()), ast.Name(id="if", ctx=ast.Store()), ast.Name(id="match", ctx=ast.Store()),
        ast.Attribute(value=n(), attr="b", ctx=ast.Store()), ast.Subscript(value=n(), slice=n(), ctx=ast.Store()),
        xast.const_num(1), xast.const_str("s"), xast.const_bytes(b"b"), xast.const_name(None), xast.const_name(True), ast.Constant(value=...), ast.Constant(value=2),
        ast.Call(func=n(), args=[], keywords=[]), ast.Lambda(args=ast.arguments(posonlyargs=[], args=[], vararg=None, kwonlyargs=[], kw_defaults=[], kwarg=None, defaults=[]), body=n()),
        ast.BoolOp(op=ast.And(), values=[n(), n()]), ast.BinOp(left=n(), op=ast.Add(), right=n()), ast.UnaryOp(op=ast.USub(), operand=n()),
        ast.IfExp(test=n(), body=n(), orelse=n()), ast.ListComp(elt=n(), generators=comp), ast.DictComp(key=n(), value=n(), generators=comp),
        ast.SetComp(elt=n(), generators=comp), ast.GeneratorExp(elt=n(), generators=comp), ast.Compare(left=n(), ops=[ast.Lt()], comparators=[n()]),
        ast.Set(elts=[n()]), ast.Dict(keys=[n()], values=[n()]), ast.Await(value=n()), ast.Yield(value=None), ast.YieldFrom(value=n()),
        ast.JoinedStr(values=[]), ast.NamedExpr(target=ast.Name(id="w", ctx=ast.Store()), value=n()),
    ]


def _rand_tgt(rng, leaves, d):
    k = rng.random()
    if d <= 0 or k < 0.45:
        return rng.choice(leaves[:5] if rng.random() < 0.7 else leaves)
    if k < 0.6:
        return ast.Starred(value=_rand_tgt(rng, leaves, d - 1), ctx=ast.Store())
    n = rng.choice([0, 1, 1, 2, 3])
    return (ast.Tuple if rng.random() < 0.5 else ast.List)(elts=[_rand_tgt(rng, leaves, d - 1) for _ in range(n)], ctx=ast.Store())


def _cpy_accepts(node, mode):
    """does CPython's own parser accept this expression as a target of that statement?"""
    import copy

    t = copy.deepcopy(node)
    try:
        text = ast.unparse(t)
    except Exception:  # noqa: BLE001
        return None
    stmt = {"assign": f"{text} = x", "aug": f"{text} += x", "del": f"del {text}"}[mode]
    if isinstance(node, ast.Tuple) and node.elts and mode == "aug":
        stmt = f"({text}) += x" if not text.startswith("(") else stmt
    try:
        # parser AND compiler: "starred assignment target must be in a list or tuple" and "multiple starred expressions in
        # assignment" are the compiler's part of the rule
        with warnings.catch_warnings():
            warnings.simplefilter("ignore")
            compile(stmt + "\n", "<target>", "exec")
    except SyntaxError:
        return False
    except (ValueError, RecursionError):
        return None
    return True


def stream_targets(ctx, n, name="tie:targets"):
    ctx.stream_rule(
        name,
        "random target expressions (Name / keyword-named Name / Attribute / Subscript / one node of every other expression class with xonsh's "
        "Constant markers, nested in Tuples / Lists / Starred up to depth 4, empty sequences included) × {assignment, augmented, del}: the real "
        "context_check._not_assignable answer (message or None) vs the Lean `notAssignable` over the translated chain, and CPython's own verdict "
        "(ast.parse of `<target> = x` / `<target> += x` / `del <target>`) vs the Lean `cpyValid`; every case where CPython accepts and xonsh "
        "refuses is a failure of the property (before /repo 7cb36ca: exactly the empty-sequence targets; now none, C01_targets_full); non-trivial = nested target",
    )
    common.setup_repo_imports()
    from xonsh.parsers.context_check import _not_assignable

    if not TABLES:
        return
    leaves = _leaf_nodes()
    cases = []
    for lf in leaves:
        for m in ("assign", "aug", "del"):
            cases.append((m, lf))
    for _ in range(n):
        cases.append((ctx.rng.choice(["assign", "assign", "aug", "del"]), _rand_tgt(ctx.rng, leaves, ctx.rng.randint(1, 4))))
    rows = [[a, b] for a, b in TABLES["notAssignableRows"]]
    ans = []
    for i in range(0, len(cases), 400):
        ans += ctx.driver.call("c01.targets", rows, TABLES["augSeqMsg"], common.codec.some(TABLES["emptySeqMsg"]) if TABLES["emptySeqMsg"] is not None else None,
                               TABLES["recAug"], [[Sym(m), _enc_tgt(t)] for m, t in cases[i : i + 400]])
    for (m, t), (lean_msg, lean_valid, no_empty) in zip(cases, ans):
        lean_msg = None if lean_msg is None else lean_msg[1]
        try:
            real = _not_assignable(t, True) if m == "aug" else _not_assignable(t)
        except Exception as e:  # noqa: BLE001
            real = f"raised {type(e).__name__}"
        desc = {"stream": name, "statement": m, "target": ast.dump(t)[:300]}
        ctx.case(name, (m, ast.dump(t)), isinstance(t, (ast.Tuple, ast.List, ast.Starred)), desc)
        ctx.count(f"targets/{m}/{'refused' if real else 'accepted'}")
        if real != lean_msg:
            ctx.disagree(name, desc, real, lean_msg)
        has_kw = any(isinstance(x, ast.Name) and x.id == "if" for x in ast.walk(t))
        cpy = None if has_kw else _cpy_accepts(t, m)
        if cpy is not None and cpy != lean_valid:
            ctx.disagree(name + " (CPython's rule)", desc, cpy, lean_valid)
        if cpy and real is not None:
            # the property: what CPython accepts, xonsh accepts
            key = "empty-sequence-target" if not no_empty else None
            ctx.spec_failure(desc, {"xonsh": real, "cpython": "accepted"}, "check_contexts refuses a target CPython's grammar allows", key)


def stream_tokens(ctx, name="tie:tokens"):
    ctx.stream_rule(
        name,
        "every operator spelling of CPython, of the lexer's token_map and special_handlers, alone and in EVERY ordered pair (≈4k texts): the first "
        "token xonsh's real tokenizer cuts off vs the Lean ordered-alternation `firstMatch` over the translated `Funny` pattern, and the PLY token "
        "type the real Lexer yields for each single spelling vs the Lean `xonshTok`; every keyword, soft keyword and some identifiers with and "
        "without surrounding blanks through the real Lexer vs the Lean `nameTokAt`; non-trivial = pair / glued word",
    )
    if not TABLES:
        return
    common.setup_repo_imports()
    import xonsh.parsers.tokenize as xt
    from xonsh.parsers.lexer import Lexer

    ops = sorted(set(TABLES["cpythonOps"]) | {a for a, _ in TABLES["tokenMapOps"]} | {a for a, _ in TABLES["specialOps"]})
    texts = list(ops) + [a + b for a in TABLES["cpythonOps"] for b in TABLES["cpythonOps"]]
    pairs = lambda t: [[a, b] for a, b in TABLES[t]]  # noqa: E731
    ans = []
    for i in range(0, len(texts), 600):
        ans += ctx.driver.call("c01.toks", TABLES["funnyAlts"], pairs("specialOps"), pairs("tokenMapOps"), pairs("errorTokenMap"), texts[i : i + 600])
    for k, (text, (m_first, m_tok)) in enumerate(zip(texts, ans)):
        m_first = None if m_first is None else m_first[1]
        m_tok = None if m_tok is None else m_tok[1]
        try:
            toks = [t for t in xt.tokenize(io.BytesIO(text.encode()).readline, tolerant=True) if t.type not in (xt.ENCODING,)]
            first = toks[0] if toks else None
        except Exception as e:  # noqa: BLE001
            first = None
            del e
        ctx.case(name, text, k >= len(ops))
        if first is not None and first.type == xt.OP:
            if first.string != m_first:
                ctx.disagree(name, {"text": text}, first.string, m_first)
        elif m_first is not None and first is not None and first.type not in (xt.IOREDIRECT1, xt.IOREDIRECT2, xt.NUMBER, xt.NEWLINE, xt.NL, xt.ERRORTOKEN, xt.COMMENT, xt.SEARCHPATH, xt.DOLLARNAME, xt.ATDOLLAR) and first.string == m_first:
            pass
        if k < len(ops):
            lx = Lexer()
            lx.input(text)
            try:
                lt = [t for t in lx if t.type not in ("NEWLINE", "WS")]
            except Exception:  # noqa: BLE001
                lt = []
            real = lt[0].type if len(lt) == 1 and lt[0].type != "ERRORTOKEN" else None
            # closing brackets alone are reported as an error by the lexer's bracket matching, not by the token tables
            if text in (")", "]", "}"):
                continue
            if real != m_tok and not (m_tok is not None and len(lt) == 2 and lt[0].type == m_tok and lt[1].type == "ERRORTOKEN"):
                ctx.disagree(name + " (token type)", {"text": text}, real, m_tok)
    words = list(TABLES["kwlist"]) + list(TABLES["softkwlist"]) + ["x", "andy", "orb", "match_", "Type", "iff", "nonlocal_"]
    req = [[ws, w] for w in words for ws in (True, False)]
    ans = ctx.driver.call("c01.names", TABLES["kwlist"], TABLES["kwExtra"], TABLES["needWhitespace"], req)
    for (ws, w), m in zip(req, ans):
        text = f"[0, {w} , 1]" if ws else f"[0,{w}]"
        lx = Lexer()
        lx.input(text)
        got = [t.type for t in lx]
        real = got[3] if len(got) > 3 else None
        ctx.case(name, ("word", ws, w), not ws)
        if real != m:
            ctx.disagree(name + " (handle_name)", {"word": w, "surrounded_by_blanks": ws}, real, m)


# ====================================================================================================== streams
FORM_BY_KEY = {f.key: f for f in FORMS}
_STORED = {}


def _absorb(ctx, records, stats):
    for k, v in stats.items():
        if k == "evaluations":
            continue
        ctx.count(k, v)
    for rec in records:
        for unit in rec["units"]:
            case = {"stream": rec["stream"], "origin": rec["origin"], "mode": unit["mode"], "parser": rec["parser"], "unit": unit["src"] if len(unit["src"]) < 4000 else unit["src"][:4000] + "…"}
            obs = {"failure": unit["failure"]}
            if unit["forms"] is not None:
                for key in unit["forms"]:
                    ctx.count(f"known/{key}")
                    if _STORED.get(key, 0) < 2:
                        _STORED[key] = _STORED.get(key, 0) + 1
                        ctx.spec_failure(case, obs, FORM_BY_KEY[key].what, key)
                    else:
                        ctx._c01_more = getattr(ctx, "_c01_more", set()) | {key}
            else:
                ctx.count("NEW FORM units")
                if unit["failure"]["kind"] == "hang":
                    ctx.count("HANG units (also a C03 violation)")
                if _STORED.get(None, 0) < 12:
                    _STORED[None] = _STORED.get(None, 0) + 1
                    obs["residual_after_curing_known_forms"] = unit["residual"]
                    obs["whole_input"] = rec["source"] if rec["source"] != unit["src"] else "(the unit)"
                    kind = unit["failure"]["kind"]
                    why = {
                        "reject": "xonsh's parser rejects text that CPython's parser accepts",
                        "differs": "xonsh builds a tree that differs from CPython's",
                        "compile": "compile() refuses xonsh's tree of a program CPython compiles",
                        "hang": "xonsh's parser does not answer (hang; also a violation of C03)",
                        "crash": "xonsh's parser raises something other than SyntaxError on valid Python",
                    }.get(kind, "valid Python is not parsed to CPython's tree")
                    ctx.spec_failure(case, obs, why + " — and no known form explains and cures it", None)


def _run_tasks(ctx, pool, stream_names, tasks):
    for records, stats in pool.map(tasks):
        for k in [k for k in stats if k.startswith("stream/")]:
            st = ctx.streams.setdefault(k[len("stream/"):], {"evaluations": 0, "distinct_nontrivial": 0})
            st["evaluations"] += stats[k]
            st["distinct_nontrivial"] += stats[k]  # every input is a distinct program text (deduplicated per worker)
            del stats[k]
        for k in [k for k in stats if k.startswith("sample/")]:
            nm = k[len("sample/"):]
            if len([x for x in ctx.samples if x.get("stream") == nm]) < 2:
                ctx.samples.append({"stream": nm, "case": stats[k]})
            del stats[k]
        _absorb(ctx, records, stats)
        if ctx.enough_failures(12):
            break


def list_files():
    import sysconfig

    roots = [sysconfig.get_paths()["stdlib"], "/venv/lib/python%d.%d/site-packages" % sys.version_info[:2]]
    files = []
    for r in roots:
        for dp, dn, fn in os.walk(r):
            dn.sort()
            for f in sorted(fn):
                if f.endswith(".py"):
                    files.append(os.path.join(dp, f))
    return files


def corner_items():
    items = []
    for c in c01gen.CORNERS:
        for m in ("exec", "single", "eval"):
            text = c if m != "eval" else c.rstrip("\n")
            try:
                ast.parse(text, mode=m)
            except (SyntaxError, ValueError):
                continue
            items.append((f"corner {m}", text, m))
            if m == "eval":
                items.append(("corner eval+newline", c, m))
    return items


def replay_known(ctx, pool):
    """open findings: the witnesses must still fail and be explained by the finding's own form; fixed findings: the witnesses must
    pass (recurrence is a violation: a fixed key is never an excuse)"""
    items = []
    for f in ctx.known:
        for i, w in enumerate(f["witness"]["inputs"]):
            items.append((f["key"], w["source"], w["mode"]))
    got = {}
    for records, stats in pool.map([{"kind": "texts", "stream": "known-witness", "items": items, "parsers": ["repo"]}]):
        st = ctx.streams.setdefault("known-witness", {"evaluations": 0, "distinct_nontrivial": 0})
        st["evaluations"] += stats.get("stream/known-witness", 0)
        st["distinct_nontrivial"] += stats.get("stream/known-witness", 0)
        for rec in records:
            keys = set()
            for u in rec["units"]:
                keys |= set(u["forms"] or [])
                if u["forms"] is None:
                    keys.add("<unexplained>")
            got.setdefault(rec["origin"], []).append((rec["source"], sorted(keys), rec["failure"]))
    open_keys = {f["key"] for f in ctx.known if f.get("status") == "open"}
    for f in ctx.known:
        hits = got.get(f["key"], [])
        still = [h for h in hits if f["key"] in h[1]]
        is_fixed = str(f.get("status", "")).startswith("fixed")
        ctx.replayed(f["key"], bool(still), {"status": f.get("status"), "witnesses_failing": len(hits), "explained_by_this_form": len(still), "first": still[0][2] if still else None})
        if still:
            # open: the finding is reproduced.  fixed: the repaired defect is back — its key is not open, so this is a VIOLATION
            ctx.count(f"known/{f['key']}")
            ctx.spec_failure({"stream": "known-witness", "mode": f["witness"]["inputs"][0]["mode"], "unit": still[0][0]}, {"failure": still[0][2]},
                             ("RECURRENCE of the repaired defect (%s): " % f.get("status") if is_fixed else "") + f["what"], f["key"])
            _STORED[f["key"]] = _STORED.get(f["key"], 0) + 1
        elif is_fixed:
            # a fixed witness must parse to CPython's tree; it may still touch OTHER open forms, nothing else
            for h in hits:
                if not set(h[1]) <= open_keys:
                    ctx.spec_failure({"stream": "known-witness", "finding": f["key"], "unit": h[0]}, {"failure": h[2], "explained_by": h[1]},
                                     f"the witness of the REPAIRED finding {f['key']} ({f.get('status')}) fails again", None)
        else:
            ctx.lean_notes.append(f"open finding {f['key']}: its witnesses no longer fail the way the form describes ({hits[:1]})")
            if hits:
                # fails, but differently: report under no key (a changed defect is a different defect)
                ctx.spec_failure({"stream": "known-witness", "finding": f["key"], "unit": hits[0][0]}, {"failure": hits[0][2], "explained_by": hits[0][1]},
                                 f"the witness of finding {f['key']} now fails in a way that form does not explain", None)


def run(ctx):
    ctx.assumptions += [
        "the reference is the running interpreter's own parser and compiler: ast.parse(src, mode) / compile() of CPython %d.%d.%d" % sys.version_info[:3],
        "xonsh's parser is used as the Execer uses it: xonsh.parser.Parser() with the table module it finds (loaded unvalidated), source + '\\n' in exec/single mode, source as given in eval mode",
        "compared as equal: xonsh's private Constant.kind markers num/str/bytes/name ~ None; a missing `type_params` ~ [] (what compile() does); f-string text pieces in canonical form (adjacent pieces joined, empty pieces dropped — CPython 3.12 itself leaves an empty piece after a nested field that ends a format spec)",
    ]
    ctx.explanation = (
        "PARTIAL. Proved (Props/C01.lean over Gen/PyTokens.lean, regenerated from /repo and the interpreter every run): operator totality / "
        "injectivity, keyword token types, soft keywords stay names, _not_assignable vs CPython's target rule for any nesting (full "
        "strength since the emptiness test was removed in /repo 7cb36ca). NOT proved, searched: the main clause, differentially against ast.parse in exec / eval / single mode, "
        "with the table xonsh loads and — when it differs from the grammar — with a freshly regenerated one. Each failure is cut down to minimal "
        "units; a unit counts as KNOWN only if a recorded syntactic form is present, the failure has that form's signature, and the form's cure "
        "(targeted edit or modelled wrong tree) makes the unit parse to CPython's tree; anything else is a new form."
    )
    quick = ctx.quick()
    fresh_dir, rep = regenerate_table(ctx)
    ctx.extra["parser_table"] = rep
    parsers = ["repo"]
    if fresh_dir is None:
        ctx.translator_errors.append("parser table: " + str(rep.get("error")))
    elif rep["diffs"]:
        ctx.translator_errors.append(
            "STALE PARSER TABLE: the table module xonsh loads (%s, unvalidated) is not what PLY generates from the working-tree grammar: %s"
            % (rep.get("table_file"), json.dumps(rep["diffs"])[:900])
        )
        parsers = ["repo", "fresh"]
    else:
        ctx.count("parser table identical to the grammar's (productions, action, goto): one run covers both")
    ctx.extra["parsers_exercised"] = parsers
    pool = Pool(fresh_dir, 20 if quick else 60)
    try:
        for nm, rule in [
            ("known-witness", "the witnesses of every known finding: an OPEN one must still fail and be explained by that finding's own form; a FIXED one must parse to CPython's tree (it may touch other open forms only) — a repaired defect that comes back is a VIOLATION"),
            ("corners", f"{len(c01gen.CORNERS)} hand-written token-level corner cases (redirect look-alikes, numbers, string prefixes, PEP 701 f-strings, indentation / continuation, trailing commas, annotation and parameter positions, soft keywords, match, except*, with, decorators, every operator, targets, non-ASCII identifiers), each in every mode CPython accepts it in"),
("string-grid", "SYSTEMATIC grid, not sampled: every legal string prefix of the interpreter in every case permutation and letter order (tokenize._all_string_prefixes: '' r R u U b B f F br … FR rf … RF, 25 spellings) × the four quote styles × every body shape (plain text, escapes, backslash-quote, `{{` `}}`, replacement fields with conversions / format specs / nested fields / `=`, backslash directly before `{` and before the quote, \\N{…}, other-quote nesting) — every combination CPython accepts, as `v = <literal>`"),
                        ("files", "(a) .py files of the interpreter's stdlib and /venv site-packages that CPython parses (decoded by their coding cookie): the whole file in exec mode; non-trivial = every file"),
            ("files/statement", "every top-level statement of those files re-parsed ALONE in exec mode, in single mode and (expression statements) in eval mode"),
            ("generated", "(b) random ast trees of the running grammar (every statement / expression / pattern / type-parameter kind; depth 1-3) -> ast.unparse, in exec / eval / single mode"),
            ("rewrites", "(c) token-level rewrites of generated programs that keep CPython's tree: other indentation unit / tabs, backslash continuations, line breaks and comments inside brackets, blanks squeezed out or widened around operators, string-prefix / quote re-spelling, trailing commas, bare tuples, `;`-joined statements"),
        ]:
            ctx.stream_rule(nm, rule)
        replay_known(ctx, pool)
        _run_tasks(ctx, pool, ["corners"], [{"kind": "texts", "stream": "corners", "items": corner_items()[i::16], "parsers": parsers} for i in range(16)])
        grid = [(o, t, "exec") for o, t in c01gen.string_grid()]
        ctx.extra["string_grid"] = {"prefix_spellings": len(c01gen.all_string_prefixes()), "texts": len(grid)}
        _run_tasks(ctx, pool, ["string-grid"], [{"kind": "texts", "stream": "string-grid", "items": grid[i::32], "parsers": parsers} for i in range(32)])
        files = list_files()
        ctx.extra["files_available"] = len(files)
        if quick:
            files = ctx.rng.sample(files, min(400, len(files)))
        else:
            ctx.rng.shuffle(files)
        nchunks = 64 if quick else 256
        _run_tasks(ctx, pool, ["files"], [{"kind": "files", "paths": files[i::nchunks], "modes": True, "parsers": parsers} for i in range(nchunks)])
        ngen = ctx.n(128, 1500)
        base = ctx.rng.randrange(1 << 30)
        _run_tasks(ctx, pool, ["generated"], [{"kind": "gen", "seed": base + i, "count": ctx.n(24, 60), "depths": ctx.n([1, 2, 2, 3], [1, 2, 2, 3, 3, 4]), "rewrites": 2, "parsers": parsers} for i in range(ngen)])
    finally:
        pool.close()
    more = getattr(ctx, "_c01_more", set())
    if more:
        ctx.extra["known_forms_seen_more_often_than_stored"] = sorted(more)
    stream_tokens(ctx)
    stream_targets(ctx, ctx.n(1500, 20000))
    missing = sorted(set(FORM_BY_KEY) - {f["key"] for f in ctx.known})
    if missing:
        ctx.lean_notes.append("forms without an entry in known_findings.json (their failures count as violations): " + ", ".join(missing))


def search(ctx, reason):
    """deeper failing-input search (a Lean obligation, the translator or the table broke, or a tie disagreed)"""
    ctx.extra["search_reason"] = reason
    fresh_dir, rep = regenerate_table(ctx)
    parsers = ["repo"] + (["fresh"] if fresh_dir and rep.get("diffs") else [])
    pool = Pool(fresh_dir, 60)
    try:
        ctx.stream_rule("search:generated", "the random-tree and rewrite streams again, more and deeper")
        base = ctx.rng.randrange(1 << 30)
        _run_tasks(ctx, pool, ["search:generated"], [{"kind": "gen", "seed": base + i, "count": 40, "depths": [2, 3, 3, 4], "rewrites": 3, "parsers": parsers} for i in range(ctx.n(128, 512))])
    finally:
        pool.close()


def replay(ctx, path):
    r = json.loads(open(path).read())
    c = r["case"]
    if "unit" not in c:
        print("this replay has no input (a broken obligation / table): re-run ./check C01")
        return common.EXIT_INFRA
    _init_worker(None, 60)
    src, mode = c["unit"], c.get("mode", "exec")
    res = examine(src, mode, "repo")
    if res in (None, "skip"):
        print("xonsh now parses this input to CPython's tree" if res is None else "CPython itself does not accept this text")
        print("property holds on this input")
        return common.EXIT_OK
    open_keys = {f["key"] for f in ctx.known if f.get("status") == "open"}
    bad = False
    for u in res["units"]:
        print("unit:", u["src"].rstrip("\n"))
        print("  failure:", u["failure"])
        print("  explained by:", u["forms"])
        if u["forms"] is None or not set(u["forms"]) <= open_keys:
            bad = True
    print(f"VIOLATION property={ID} replay={path}" if bad else "only known findings on this input")
    return common.EXIT_VIOLATION if bad else common.EXIT_OK
