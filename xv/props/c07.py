"""C07 — Redirections and pipes deliver each stream to exactly the documented place."""

from __future__ import annotations

import json
import os
import sys


# ----------------------------------------------------------------------------------------------------------------
# The WORKER: `python c07.py --worker <scratch dir>` runs cells through the real Execer.  It is started by the check
# (below) as a child process whose OWN file descriptors 0/1/2 play the terminal: for every cell they are pointed at
# fresh files, the source text is executed, and everything observable is sent back as one JSON line.
# (kept above the package-relative imports so that the file can be run as a script)
def _worker_main(root):
    import select
    import shutil
    import threading
    import time
    import warnings

    sys.dont_write_bytecode = True
    repo = os.environ.get("XV_REPO", "/repo")
    if repo in sys.path:
        sys.path.remove(repo)
    sys.path.insert(0, repo)
    os.environ["XONSH_XONSH_VERIF"] = "1"
    warnings.simplefilter("ignore")
    res_out = os.fdopen(os.dup(1), "w")
    os.makedirs(root + "/bin", exist_ok=True)
    os.makedirs(root + "/data", exist_ok=True)
    # the external stage: record stdin in the side file, then one tagged line on each stream
    for nm in ("xp", "xq"):
        with open(f"{root}/bin/{nm}", "w") as f:
            f.write('#!/bin/sh\ncat > "$2"\nprintf "O%s\\n" "$1"\nprintf "E%s\\n" "$1" >&2\n')
        os.chmod(f"{root}/bin/{nm}", 0o755)
    dn = os.open(os.devnull, os.O_RDWR)
    os.dup2(dn, 1)
    from xonsh.built_ins import XSH
    from xonsh.main import setup
    from xonsh.procs.proxies import ProcProxyThread
    from xonsh.tools import unthreadable

    ctx = {}
    setup(
        ctx=ctx,
        shell_type="none",
        env={
            "XONSH_DATA_DIR": root + "/data",
            "PATH": [root + "/bin", "/usr/bin", "/bin"],
            "XONSH_SHOW_TRACEBACK": False,
            "XONSH_SUBPROC_CMD_RAISE_ERROR": False,
            "XONSH_SUBPROC_RAISE_ERROR": False,
            "XONSH_INTERACTIVE": False,
            "XONSH_HISTORY_BACKEND": "dummy",
        },
    )
    XSH.commands_cache.threadable_predictors["xq"] = lambda *a, **k: False

    def _stage(args, stdin, stdout, stderr):
        i, side = args[0], args[1]
        with open(side, "w") as f:
            f.write("<none>\n" if stdin is None else stdin.read())
        stdout.write(f"O{i}\n")
        stderr.write(f"E{i}\n")
        return 0

    def ta(args, stdin=None, stdout=None, stderr=None):
        return _stage(args, stdin, stdout, stderr)

    @unthreadable
    def ua(args, stdin=None, stdout=None, stderr=None):
        return _stage(args, stdin, stdout, stderr)

    XSH.aliases["ta"] = ta
    XSH.aliases["ua"] = ua
    execer = XSH.execer

    def run_cell(cell, d):
        os.mkdir(d)
        os.chdir(d)
        for fn, content in cell.get("files", {}).items():
            with open(fn, "w") as f:
                f.write(content)
        with open("t0", "w") as f:
            f.write("T0\n")
        env = XSH.env
        env["THREAD_SUBPROCS"] = cell.get("thread", True)
        env["XONSH_CAPTURE_ALWAYS"] = cell.get("always", False)
        env["XONSH_SUBPROC_CAPTURED_PRINT_STDERR"] = cell.get("printerr", False)
        sys.stdout.flush()
        sys.stderr.flush()
        f0 = os.open("t0", os.O_RDONLY)
        f1 = os.open("t1", os.O_WRONLY | os.O_CREAT | os.O_APPEND)
        f2 = os.open("t2", os.O_WRONLY | os.O_CREAT | os.O_APPEND)
        os.dup2(f0, 0)
        os.dup2(f1, 1)
        os.dup2(f2, 2)
        g = dict(ctx)
        exc = None
        r = None
        stuck = False
        try:
            execer.exec(cell["src"], glbs=g, locs=None, mode="exec", filename="<c07>")
            r = g.get("r")
            if r is not None and not isinstance(r, str):
                r.end()
                r = {"out": r.out, "err": r.err}
        except BaseException as e:  # noqa: BLE001
            exc = [type(e).__name__, str(e)[:300]]
            r = None
        # callable-alias threads may still be writing (or be blocked for good on a pipe nobody closes)
        deadline = time.time() + 2.5
        for t in threading.enumerate():
            if isinstance(t, ProcProxyThread):
                t.join(max(0.0, deadline - time.time()))
                stuck = stuck or t.is_alive()
        try:
            sys.stdout.flush()
            sys.stderr.flush()
        except Exception:  # noqa: BLE001
            pass
        obs = {}
        for fn in sorted(os.listdir(d)):
            if fn == "t0":
                continue
            p = os.path.join(d, fn)
            if os.path.isdir(p):
                continue
            with open(p, errors="replace") as f:
                obs[fn] = f.read()
        return {"exc": exc, "r": r, "files": obs, "stuck": stuck}

    # every cell runs in a FORKED copy of this warmed-up interpreter: no state (jobs, leaked pipes, blocked threads) is carried
    # from one cell to the next, and a cell that hangs is killed without losing the interpreter
    n = 0
    for line in sys.stdin:
        cell = json.loads(line)
        n += 1
        d = os.path.join(root, f"c{n}")
        pr, pw = os.pipe()
        pid = os.fork()
        if pid == 0:
            code = 0
            try:
                os.close(pr)
                os.setpgid(0, 0)
                out = run_cell(cell, d)
                with os.fdopen(pw, "w") as f:
                    f.write(json.dumps(out))
            except BaseException as e:  # noqa: BLE001
                code = 1
                try:
                    os.write(pw, json.dumps({"died": True, "why": f"{type(e).__name__}: {e}"[:300]}).encode())
                except OSError:
                    pass
            finally:
                os._exit(code)
        os.close(pw)
        chunks = []
        deadline = time.time() + float(cell.get("timeout", 20))
        hang = False
        while True:
            left = deadline - time.time()
            if left <= 0:
                hang = True
                break
            rd, _, _ = select.select([pr], [], [], left)
            if rd:
                b = os.read(pr, 1 << 16)
                if not b:
                    break
                chunks.append(b)
        os.close(pr)
        if hang:
            for sig in (15, 9):
                try:
                    os.killpg(pid, sig)
                except OSError:
                    pass
                time.sleep(0.05)
        try:
            os.waitpid(pid, 0)
        except OSError:
            pass
        # stage processes of a cell that went wrong may linger in their own groups; they hold nothing of ours
        shutil.rmtree(d, ignore_errors=True)
        txt = b"".join(chunks).decode("utf-8", "replace")
        if hang:
            res_out.write(json.dumps({"hang": True}) + "\n")
        elif not txt:
            res_out.write(json.dumps({"died": True}) + "\n")
        else:
            res_out.write(txt + "\n")
        res_out.flush()


if __name__ == "__main__":
    if len(sys.argv) == 3 and sys.argv[1] == "--worker":
        _worker_main(sys.argv[2])
    os._exit(0)

# ----------------------------------------------------------------------------------------------------------------
import itertools  # noqa: E402
import re  # noqa: E402
import select  # noqa: E402
import shutil  # noqa: E402
import subprocess  # noqa: E402
import uuid  # noqa: E402

from .. import common  # noqa: E402
from ..codec import Sym  # noqa: E402

ID = "C07"
LEVEL = "proof"
GEN_MODULES = ["XonshVerif.Gen.Redir"]
PROPS_MODULES = ["XonshVerif.Props.C07"]
TECHNIQUE = (
    "Lean 4 proof (decide over the complete translated operator tables; induction over the redirect list and over the stage list: "
    "model routing = documented routing) + translator (tables, the exhaustively enumerated regex language, tokenizer spellings, "
    "grammar rule shape) + end-to-end differential matrix through the real Execer with tagged data on every stream"
)
LEVEL_TEXT = (
    "proof: the redirect tables of procs/specs.py, the whole 2352-word language of _REDIR_REGEX with its groups, the tokenizer's "
    "spelling lists, the lexer's plain `<` `>` `>>` and the shape of the grammar rule are translated from /repo on every run. "
    "HEADLINE — C07_route: for EVERY pipeline (any number of stages of any kind, any redirect lists written with any tokenizable "
    "spelling, any capture form, any $THREAD_SUBPROCS / $XONSH_CAPTURE_ALWAYS / $XONSH_SUBPROC_CAPTURED_PRINT_STDERR, any target "
    "states) the model of the code as it is now (_parse_redirects / _redirect_streams / the single-assignment slots / the pipe wiring "
    "of cmds_to_specs / _update_last_spec + _make_last_spec_captured / the handle choice of Popen, ProcProxyThread and ProcProxy / "
    "CommandPipeline's delivery of the capture channels) raises exactly when the documentation says error and otherwise delivers "
    "every stage's stdin, stdout, stderr and opens every file exactly as documented (refinement of the three passes of cmds_to_specs "
    "to a stage-by-stage function, one stage by exhaustive case analysis, the pipeline by induction on the stage list). With it: every "
    "one of the tokenizable spellings is a documented operator and the tables decode it to exactly that operator, all spellings of an "
    "operator decode identically, every spelling the tutorial names is tokenizable, `>` opens with w and `>>` with a, only merge/pipe "
    "tokens stand without a target (decide over the whole tables); for EVERY redirect list resolve_redirects succeeds iff all "
    "redirects are well formed and no stream is claimed twice (induction). The pinned snapshot deviated from the documentation in "
    "seven ways, all repaired in /repo (ce03276 55d432e c8fac0d 58fc858 e44af9d 6c98380 0a66bfd): C07_cex_* record what the snapshot "
    "did on each witness, C07_route_partial that it was right outside the seven regions; the seven witnesses are replayed on every run "
    "as FIXED witnesses (a recurrence is a VIOLATION). Tie: every spelling typed as source text through the real Execer on every stage "
    "kind / position / capture form / target state, each stage recording its stdin and writing O<i>/E<i>; target files, stage stdins, "
    "the capture and the check's own fds 0/1/2 are compared with the model AND with the documented routing; every word of the regex "
    "language through the real decoder; the real lexer on every spelling and on the non-tokenizable words."
)
LEVEL_NOTE = (
    "Trusted: Lean kernel + standard axioms; translator/c07.py; the harness. Modelled, not verified: CPython's open()/subprocess fd "
    "inheritance, OS pipes, PLY and the grammar actions (the spellings are typed as source, so they are exercised but not modelled), "
    "threads and timing (an observation that does not reproduce 3/3 is counted as nondeterministic, not as a routing failure: "
    "completeness under races belongs to C06). The theorem about malformed operators (C07_malformed_rejected) is over the ROWS of the "
    "translated regex table; that the table lookup of a word finds that word's row (no duplicate words) is the translator's "
    "sorted(set()) and is exercised, not proved. The decoder accepts 212 undocumented strings (`X>&N`, `&N>Y`) when called "
    "programmatically; none is tokenizable (theorem) and the real lexer never emits one as a token (lexer stream): a remark, not a "
    "finding. `o>e` together with `e>o` in one command is not specified by the documentation and is excluded; background `&` is not "
    "exercised. The seven deviations stay switchable in the model (Quirks): the check asks the implementation which ones it has "
    "(witness replay) and runs the model with those, so a regression of one repair shows as a VIOLATION under that finding's key with "
    "the correspondence still exact; validated against trees with each repair alone, several subsets, all seven, and none."
)

QUIRKS = [
    "alias-uncaptured-stderr-follows-stdout",  # bothMinusOne
    "unthreaded-alias-ignores-small-int-handles",  # pickBufSmallInt
    "captured-stdout-o2e-falls-back-to-terminal-stdout",  # flag2BecomesNone
    "int-handle-reaches-safe-readable",  # intNotReadable
    "unthreaded-capture-object-drops-stderr",  # unthreadedErrNotRead
    "o2e-means-shell-fd2-not-command-stderr",  # fd2Literal
    "unthreaded-alias-stdin-file-unreadable",  # unthreadedStdinText
]
CAPS = ["uncaptured", "hidden", "bare", "stdout", "object"]
KIND_CMD = {"proc": "xp", "procU": "xq", "ta": "ta", "ua": "ua"}

D = None  # the translator's dump of the tables (set by translate)


# ---------------------------------------------------------------------------------------------------------------- tables
def translate(ctx):
    global D
    from translator import c07 as tr

    text, fps, errors, d = tr.generate(common.REPO)
    if text is not None:
        common.write_if_changed(common.module_path("XonshVerif.Gen.Redir"), text)
    ctx.fingerprints.update(fps)
    ctx.translator_errors += errors
    ctx.trusted_base.append("translator/c07.py (table dump from a fresh interpreter, regex-language enumeration from the parsed pattern, grammar rule shape by ast)")
    D = d


def tables_sx(words=None):
    """the tables as the driver wants them; the regex rows may be restricted to the operators of one cell (List.lookup on the
    restricted table returns the same row)"""
    if words is not None:
        words = {w[:-1] if w.endswith("\n") else w for w in words}  # `$` also matches before one final newline
    rows = D["regex"] if words is None else [r for r in D["regex"] if r[0] in words]
    return [rows, D["modes"], D["write_modes"], D["redir_all"], D["redir_err"], D["redir_out"], D["e2o"], D["o2e"], D["a2p"], D["e2p"]]


# ---------------------------------------------------------------------------------------------------------------- workers
class Worker:
    def __init__(self):
        self.root = str(common.scratch_root() / f"c07w-{uuid.uuid4().hex[:8]}")
        os.makedirs(self.root)
        env = dict(os.environ)
        env["XV_REPO"] = str(common.REPO)
        env.pop("PYTHONPATH", None)
        self.p = subprocess.Popen(
            ["/venv/bin/python", os.path.abspath(__file__), "--worker", self.root],
            stdin=subprocess.PIPE, stdout=subprocess.PIPE, stderr=subprocess.DEVNULL, text=True, bufsize=1, env=env, cwd=self.root,
        )
        self.pending = 0

    def send(self, cell):
        self.p.stdin.write(json.dumps(cell) + "\n")
        self.p.stdin.flush()
        self.pending += 1

    def recv(self, timeout=40):
        r, _, _ = select.select([self.p.stdout], [], [], timeout)
        if not r:
            self.p.kill()
            self.pending = 0
            return {"hang": True}
        line = self.p.stdout.readline()
        self.pending -= 1
        if not line:
            self.pending = 0
            return {"died": True}
        return json.loads(line)

    def alive(self):
        return self.p.poll() is None

    def close(self):
        try:
            self.p.stdin.close()
            self.p.wait(5)
        except Exception:  # noqa: BLE001
            self.p.kill()
        shutil.rmtree(self.root, ignore_errors=True)


class Pool:
    """a few workers; cells are run in order, round-robin, one outstanding cell per worker"""

    def __init__(self, n):
        # the first interpreter imports xonsh ALONE (and answers one no-op cell) before the others start: a tree without its generated
        # parser tables writes them on first import, and several interpreters doing that at once corrupt the file
        first = Worker()
        first.send({"src": "pass", "files": {}})
        first.recv(timeout=120)
        self.ws = [first] + [Worker() for _ in range(n - 1)]

    def run_many(self, wire_cells):
        out = [None] * len(wire_cells)
        it = iter(enumerate(wire_cells))
        busy = {}
        done = False
        while not done or busy:
            for k, w in enumerate(self.ws):
                if k in busy or done:
                    continue
                if not w.alive():
                    w.close()
                    self.ws[k] = w = Worker()
                try:
                    idx, c = next(it)
                except StopIteration:
                    done = True
                    break
                w.send(c)
                busy[k] = idx
            for k in list(busy):
                w = self.ws[k]
                res = w.recv()
                out[busy.pop(k)] = res
                if not w.alive():
                    w.close()
                    self.ws[k] = Worker()
        return out

    def run_one(self, wire_cell):
        return self.run_many([wire_cell])[0]

    def close(self):
        for w in self.ws:
            w.close()


# ---------------------------------------------------------------------------------------------------------------- cells
def target_name(k, tg):
    base = f"in{k}.txt" if tg["role"] == "in" else f"x{k}.txt"
    return ("nodir/" + base) if tg["state"] == "unopenable" else base


def cell_source(cell):
    parts = []
    for i, st in enumerate(cell["stages"]):
        words = [KIND_CMD[st["kind"]], str(i), f"s{i}"]
        # redirects are inserted from the back so that the recorded positions refer to the bare word list
        pieces = []
        for rd in st["redirs"]:
            if rd["target"] is None:
                txt = rd["op"]
            elif rd["target"] == "many":
                txt = rd["op"] + " @(['m1.txt', 'm2.txt'])"
            else:
                txt = rd["op"] + (" " if rd.get("space", True) else "") + target_name(rd["target"], cell["targets"][rd["target"]])
            pieces.append((min(rd.get("pos", 3), 3), txt))
        outw = []
        for pos in range(4):
            outw += [t for p, t in pieces if p == pos]
            if pos < 3:
                outw.append(words[pos])
        parts.append(" ".join(outw))
    body = " | ".join(parts)
    return {"hidden": f"![{body}]", "bare": body, "uncaptured": f"$[{body}]", "stdout": f"r = $({body})", "object": f"r = !({body})"}[cell["cap"]]


def wire_cell(cell):
    files = {}
    for k, tg in enumerate(cell["targets"]):
        if tg["state"] == "present":
            files[target_name(k, tg)] = (f"IN{k}\n" if tg["role"] == "in" else f"PRE{k}\n")
    return {"src": cell_source(cell), "files": files, "thread": cell["cfg"][0], "always": cell["cfg"][1], "printerr": cell["cfg"][2]}


def cell_sx(cell, quirks):
    ops = {rd["op"] for st in cell["stages"] for rd in st["redirs"]}
    stages = []
    for st in cell["stages"]:
        rs = []
        for rd in st["redirs"]:
            loc = Sym("none") if rd["target"] is None else (Sym("many") if rd["target"] == "many" else [Sym("one"), rd["target"]])
            rs.append([rd["op"], loc])
        kind = st["kind"]
        if kind == "procU" and any(min(rd.get("pos", 3), 3) == 0 for rd in st["redirs"]):
            kind = "proc"  # predict_threadable(spec.args) looks at the first WORD, and that is the redirect operator
        stages.append([Sym(kind), rs])
    cap = "hidden" if cell["cap"] == "bare" else cell["cap"]
    return [tables_sx(ops), list(quirks), list(cell["cfg"]), Sym(cap), stages, [Sym(t["state"]) for t in cell["targets"]]]


ERR_PATTERNS = [
    ("multiStdin", "XonshError", "Multiple inputs for stdin"),
    ("multiStdout", "XonshError", "Multiple redirections for stdout"),
    ("multiStderr", "XonshError", "Multiple redirections for stderr"),
    ("needsPipe", "XonshError", "requires a following pipe"),
    ("unthreadable", "XonshError", "is not supported in pipelines"),
    ("unrecognized", "XonshError", "Unrecognized redirection command"),
    ("openFailed", "XonshError", "unable to open file"),
    ("openFailed", "XonshError", "no such file or directory"),
    ("openFailed", "XonshError", "permission denied"),
    ("unsupportedLoc", "Exception", "Unsupported redirect"),
    ("emptyCmd", "XonshError", "command is empty"),
    ("intNotReadable", "AttributeError", "'int' object has no attribute 'readable'"),
    ("valueErr", "ValueError", "invalid literal for int()"),
    ("noMatch", "AttributeError", "'NoneType' object has no attribute 'groups'"),
]


def err_class(exc):
    if exc is None:
        return None
    for name, typ, frag in ERR_PATTERNS:
        if exc[0] == typ and frag in exc[1]:
            return name
    if exc[0] == "SyntaxError":
        return "syntax"
    return f"other:{exc[0]}"


def observe(cell, res):
    """canonical observation of one cell: error class, per stage (stdin class, places of O<i>, places of E<i>), stray content"""
    if res.get("hang") or res.get("died"):
        return {"infra": "hang" if res.get("hang") else "worker died"}
    n = len(cell["stages"])
    files = dict(res["files"])
    sinks = {}  # place (tuple) -> list of lines
    stray = []
    pre_kept = {}
    for k, tg in enumerate(cell["targets"]):
        nm = target_name(k, tg)
        if tg["role"] == "in":
            continue
        c = files.get(nm)
        if c is None:
            pre_kept[k] = None
            continue
        lines = c.replace("\r\n", "\n").split("\n")
        if lines and lines[-1] == "":
            lines.pop()
        kept = bool(lines) and lines[0] == f"PRE{k}"
        pre_kept[k] = kept
        if kept:
            lines = lines[1:]
        sinks[("file", k)] = lines
    r = res["r"]
    if isinstance(r, str):
        sinks[("capOut",)] = _lines(r)
    elif isinstance(r, dict):
        sinks[("capOut",)] = _lines(r["out"] or "")
        sinks[("capErr",)] = _lines(r["err"] or "")
    sinks[("termOut",)] = _lines(files.get("t1", ""))
    term_err = _lines(files.get("t2", ""))
    srcs = []
    ran = []
    for i in range(n):
        c = files.get(f"s{i}")
        ran.append(c is not None)
        if c is None:
            srcs.append(None)
            continue
        ls = _lines(c)
        if ls == ["T0"] or ls == ["<none>"]:
            srcs.append("inherit")
        elif len(ls) == 1 and re.fullmatch(r"IN\d+", ls[0]):
            srcs.append(["file", int(ls[0][2:])])
        else:
            srcs.append("pipe")
            sinks[("stdin", i)] = ls
    tags = {f"{s}{i}" for i in range(n) for s in "OE"}
    where = {t: [] for t in tags}
    for place, lines in sinks.items():
        for ln in lines:
            if ln in tags:
                where[ln].append(list(place))
            else:
                stray.append([list(place), ln[:60]])
    for ln in term_err:
        if ln in tags:
            where[ln].append(["termErr"])
    # a target file that exists although no stage wrote to it / unexpected extra files
    known = {target_name(k, tg) for k, tg in enumerate(cell["targets"])} | {"t1", "t2"} | {f"s{i}" for i in range(n)}
    for fn in files:
        if fn not in known and fn not in ("m1.txt", "m2.txt"):
            stray.append([["file", fn], "unexpected file"])
    stages = []
    for i in range(n):
        if ran[i]:
            stages.append([srcs[i], sorted(where[f"O{i}"]), sorted(where[f"E{i}"])])
        else:
            stages.append(None)
    return {"err": err_class(res["exc"]), "exc": res["exc"], "stages": stages, "where": {t: sorted(v) for t, v in where.items()},
            "pre_kept": pre_kept, "stray": stray, "any_ran": any(ran)}


def _lines(s):
    ls = s.replace("\r\n", "\n").replace("\r", "\n").split("\n")
    if ls and ls[-1] == "":
        ls.pop()
    return ls


def place_key(cell, p):
    """a model place as the observation names it; for a file: (file, t) — the open mode is compared through `pre_kept`"""
    if isinstance(p, list):
        if str(p[0]) == "file":
            return ["file", p[1]]
        return ["stdin", p[1]]
    return [str(p)]


def expected_from(cell, stages_sx):
    """model / spec stage list -> (per stage [src, out places, err places], {target: open mode})"""
    out = []
    modes = {}
    for st in stages_sx:
        src = st[0]
        src = [str(src[0]), src[1]] if isinstance(src, list) else str(src)
        if src == "broken":
            src = "pipe"  # an unreadable stdin object shows as an empty record
        o = sorted(place_key(cell, p) for p in st[1])
        e = sorted(place_key(cell, p) for p in st[2])
        for t, mode in st[3]:
            modes[t] = mode
        out.append([src, o, e])
    return out, modes


def compare(cell, obs, outcome, what):
    """observation against a (model | spec) outcome; returns None or a description of the difference.
    outcome = ('error', cls or None) | ('ok', stages_sx, raised_after)"""
    if outcome[0] == "error":
        if obs["err"] is None:
            return f"{what} says an error is raised; the command completed"
        if outcome[1] is not None and obs["err"] != outcome[1]:
            return f"{what} says error {outcome[1]}; observed {obs['err']}"
        if obs["any_ran"] or any(obs["where"].values()):
            return f"{what} says nothing runs; observed output {obs['where']}"
        return None
    stages, modes = expected_from(cell, outcome[1])
    if outcome[2]:
        if obs["err"] != "intNotReadable":
            return f"{what} says AttributeError after the run; observed {obs['err']}"
        if not stages:
            # inside a pipeline the exception leaves the stages in an unpredictable state (the pipe into the last stage stays open
            # in the shell, earlier stages are torn down at some moment): only the exception itself is claimed
            return None
    elif obs["err"] is not None:
        return f"{what} says the command completes; observed {obs['exc']}"
    for i, exp in enumerate(stages):
        got = obs["stages"][i] if i < len(obs["stages"]) else None
        if got is None:
            return f"{what}: stage {i} did not run"
        if got[1] != exp[1]:
            return f"{what}: stdout of stage {i} expected at {exp[1]}, observed at {got[1]}"
        if got[2] != exp[2]:
            return f"{what}: stderr of stage {i} expected at {exp[2]}, observed at {got[2]}"
        if got[0] != exp[0]:
            return f"{what}: stdin of stage {i} expected {exp[0]}, observed {got[0]}"
    for t, mode in modes.items():
        if cell["targets"][t]["state"] == "present":
            want = mode == "a"
            if obs["pre_kept"].get(t) is not want:
                return f"{what}: target {t} opened with mode {mode!r}: old content must be {'kept' if want else 'gone'}; observed kept={obs['pre_kept'].get(t)}"
    for k, tg in enumerate(cell["targets"]):
        if tg["role"] == "out" and k not in modes and tg["state"] == "present" and obs["pre_kept"].get(k) is not True:
            return f"{what}: target {k} is not written by any stage but its content changed"
    if obs["stray"]:
        return f"{what}: unexpected content {obs['stray'][:3]}"
    return None


def model_outcome(ans):
    m = ans[0]
    if m[0] is not None:
        return ("error", str(m[0][1]))
    return ("ok", m[2], bool(m[1]))


def spec_outcome(ans):
    s = ans[1]
    tag = str(s[0])
    if tag == "error":
        return ("error", None)
    if tag == "unspecified":
        return None
    return ("ok", s[1], False)


# ---------------------------------------------------------------------------------------------------------------- generators
def spellings_by_op(ctx):
    """documented spellings grouped by their documented meaning (asked from the Lean spec, over the translated tokenizer list)"""
    ans = ctx.driver.call("c07.decode", tables_sx(), D["tokenizable"])
    groups = {}
    for r, a in zip(D["tokenizable"], ans):
        op = a[2]
        if op is None:
            groups.setdefault("undocumented", []).append(r)
            continue
        op = op[1]
        key = str(op[0]) + ("" if len(op) == 1 else (":a" if op[1] else ":w"))
        groups.setdefault(key, []).append(r)
    return groups


def mk_redir(rng, G, key, cell, state=None, role="out"):
    op = rng.choice(G[key])
    if op in D["takes_target"]:
        st = state or rng.choices(["present", "missing", "unopenable"], [60, 32, 8])[0]
        cell["targets"].append({"role": role, "state": st})
        return {"op": op, "target": len(cell["targets"]) - 1, "space": rng.random() < 0.75, "pos": rng.choice([0, 1, 2, 3, 3, 3])}
    return {"op": op, "target": None, "pos": rng.choice([0, 1, 2, 3, 3, 3])}


def random_cell(rng, G):
    n = rng.choices([1, 2, 3, 4], [40, 38, 17, 5])[0]
    cfg = [True, False, False] if rng.random() < 0.65 else [rng.random() < 0.6, rng.random() < 0.4, rng.random() < 0.4]
    cell = {"cap": rng.choice(CAPS), "cfg": cfg, "stages": [], "targets": []}
    for i in range(n):
        last = i == n - 1
        kind = rng.choices(["proc", "ta", "ua", "procU"], [45, 32, 13 if n == 1 else 4, 10])[0]
        rs = []
        oc = rng.choices(["", "outFile:w", "outFile:a", "outToErr", "allFile:w", "allFile:a", "allToPipe"], [50, 14, 8, 10, 5, 3, 4 if last else 10])[0]
        ec = rng.choices(["", "errFile:w", "errFile:a", "errToOut", "errToPipe"], [50, 12, 8, 14, 3 if last else 16])[0]
        if oc == "outToErr" and ec == "errToOut":
            ec = ""  # `o>e e>o` is not specified
        if oc.startswith("allFile") or oc == "allToPipe":
            if rng.random() < 0.85:
                ec = ""
        if oc:
            rs.append(mk_redir(rng, G, oc, cell))
        if ec:
            rs.append(mk_redir(rng, G, ec, cell))
        if rng.random() < (0.16 if i == 0 else 0.04):
            rs.append(mk_redir(rng, G, "input", cell, state=rng.choices(["present", "missing"], [85, 15])[0], role="in"))
        if rng.random() < 0.07:  # a second claim on some stream
            key = rng.choice(["outFile:w", "outFile:a", "errFile:w", "errToOut", "outToErr", "allFile:w", "input", "errToPipe"])
            if not ({key, oc, ec} >= {"outToErr", "errToOut"}):
                rs.append(mk_redir(rng, G, key, cell, role="in" if key == "input" else "out"))
        rng.shuffle(rs)
        if rng.random() < 0.012:
            rs = [{"op": rng.choice(D["takes_target"]), "target": "many", "pos": 3}]  # a list-valued target, alone on its command
        rs.sort(key=lambda rd: min(rd.get("pos", 3), 3))  # list order = order in the source text
        cell["stages"].append({"kind": kind, "redirs": rs})
    return cell


def family_cells(G, cfg=(True, False, False), kinds=("proc", "ta", "ua", "procU")):
    """THE MATRIX: every tokenizable spelling x stage kind x position (only / first of 2 / last of 2 / middle of 3) x capture form
    x target present / missing; the other stages are plain external commands"""
    cells = []
    for op in D["tokenizable"]:
        states = ["present", "missing"] if op in D["takes_target"] else [None]
        for kind, pos, cap, state in itertools.product(kinds, ["only", "first", "last", "middle"], ["uncaptured", "hidden", "stdout", "object"], states):
            cell = {"cap": cap, "cfg": list(cfg), "stages": [], "targets": []}
            rd = {"op": op, "target": None, "pos": 3, "space": True}
            if state is not None:
                cell["targets"].append({"role": "in" if op == "<" else "out", "state": state})
                rd["target"] = 0
            me = {"kind": kind, "redirs": [rd]}
            plain = lambda: {"kind": "proc", "redirs": []}  # noqa: E731
            cell["stages"] = {"only": [me], "first": [me, plain()], "last": [plain(), me], "middle": [plain(), me, plain()]}[pos]
            cells.append(cell)
    return cells


# ---------------------------------------------------------------------------------------------------------------- evaluation
PRIORITY = [3, 6, 4, 2, 0, 1, 5]  # order in which single repairs are tried when a failure is attributed to a deviation


def attribute(ctx, cell, quirks):
    """which deviation explains that the (faithful) model differs from the documented routing on this cell: the first one whose
    repair alone changes the model's answer, provided the fully repaired model satisfies the documentation"""
    fixed_all = ctx.driver.call("c07.route", *cell_sx(cell, [False] * 7))
    if not fixed_all[2]:
        return None
    base = ctx.driver.call("c07.route", *cell_sx(cell, quirks))[0]
    for k in PRIORITY:
        if not quirks[k]:
            continue
        q = list(quirks)
        q[k] = False
        if ctx.driver.call("c07.route", *cell_sx(cell, q))[0] != base:
            return QUIRKS[k]
    return None


def describe(cell):
    return {"source": cell_source(cell), "cfg": dict(zip(["THREAD_SUBPROCS", "XONSH_CAPTURE_ALWAYS", "XONSH_SUBPROC_CAPTURED_PRINT_STDERR"], cell["cfg"])),
            "files_present": [target_name(k, t) for k, t in enumerate(cell["targets"]) if t["state"] == "present"], "cell": cell}


def evaluate(ctx, pool, stream, cells, quirks, results=None):
    """run the cells on the real code and through the driver; report disagreements with the model and failures of the documented routing"""
    if results is None:
        results = pool.run_many([wire_cell(c) for c in cells])
    for cell, res in zip(cells, results):
        if ctx.enough_failures(4):
            break
        obs = observe(cell, res)
        ans = ctx.driver.call("c07.route", *cell_sx(cell, quirks))
        mo, so = model_outcome(ans), spec_outcome(ans)
        nstage = len(cell["stages"])
        nred = sum(len(s["redirs"]) for s in cell["stages"])
        ctx.case(stream, json.dumps(cell, sort_keys=True), nred > 0, {"source": cell_source(cell), "cfg": cell["cfg"]})
        ctx.count(f"cap/{cell['cap']}")
        ctx.count(f"stages/{nstage}")
        for s in cell["stages"]:
            ctx.count(f"kind/{s['kind']}")
        ctx.count("model/" + (f"error:{mo[1]}" if mo[0] == "error" else ("raisedAfter" if mo[2] else "ok")))
        ctx.count("spec/" + ("unspecified" if so is None else so[0]))
        if "infra" in obs:
            tries = [observe(cell, pool.run_one(wire_cell(cell))) for _ in range(2)]
            if all("infra" in t for t in tries):
                ctx.spec_failure({"stream": stream, **describe(cell)}, {"observed": obs["infra"]}, "the command does not finish (hang / crash of the interpreter) — 3 of 3 runs", None)
            else:
                ctx.count("nondeterministic-observation")
            continue
        dm = compare(cell, obs, mo, "the model")
        ds = None if so is None else compare(cell, obs, so, "the documentation")
        if dm is None and ds is None:
            continue
        # routing is deterministic: a difference must reproduce (completeness under races is C06's subject)
        again = [observe(cell, pool.run_one(wire_cell(cell))) for _ in range(2)]
        if any("infra" not in o2 and compare(cell, o2, mo, "m") is None and (so is None or compare(cell, o2, so, "s") is None) for o2 in again):
            ctx.count("nondeterministic-observation")
            continue
        obs_short = {"raised": obs["exc"], "where": obs["where"], "stdin": [None if s is None else s[0] for s in obs["stages"]], "old_content_kept": obs["pre_kept"], "stray": obs["stray"][:3]}
        if dm is not None:
            ctx.disagree(stream, describe(cell), obs_short, {"model": repr(ans[0]), "difference": dm})
        if ds is not None:
            key = None
            if dm is None:
                key = attribute(ctx, cell, quirks)
            ctx.count(f"property-failure/{key}")
            ctx.spec_failure({"stream": stream, **describe(cell)}, {**obs_short, "difference": ds}, "a stream of a pipeline stage does not end up where the documentation of the redirect operators says: " + ds, key)


# ---------------------------------------------------------------------------------------------------------------- streams
def stream_tables(ctx, name="decoder"):
    ctx.stream_rule(
        name,
        "EVERY word of the language of _REDIR_REGEX (enumerated by the translator), every tokenizable spelling and seeded near-misses "
        "(one character inserted / deleted / replaced, `p` destinations, stray `&`) through the real _parse_redirects and "
        "_redirect_streams (scratch target present / missing / none / a list) against the Lean decoder; every tokenizable spelling must "
        "decode to its DOCUMENTED class and open mode; non-trivial = not rejected at the regex",
    )
    common.setup_repo_imports()
    import subprocess as sp

    import xonsh.procs.specs as S
    from xonsh.tools import XonshError

    rng = ctx.rng
    words = [r[0] for r in D["regex"]]
    alphabet = "oeaupt&<>120 rl"
    near = set()
    base = D["tokenizable"] + rng.sample(words, min(len(words), ctx.n(150, 800)))
    for w in base:
        for _ in range(2):
            k = rng.randrange(len(w) + 1)
            near.add(w[:k] + rng.choice(alphabet) + w[k:])
            if w:
                k = rng.randrange(len(w))
                near.add(w[:k] + w[k + 1:])
                near.add(w[:k] + rng.choice(alphabet) + w[k + 1:])
    near |= {"", "p", ">p", "o>p", "1>p", "&>p", "a>>p", "e>>p", ">&", "2>&", ">>&", "<&", "e>o\n", ">\n", "2>&1 "}
    allw = list(dict.fromkeys(words + D["tokenizable"] + sorted(near - set(words))))
    ans = ctx.driver.call("c07.decode", tables_sx(), allw)
    root = str(common.scratch_root() / f"c07t-{uuid.uuid4().hex[:6]}")
    os.makedirs(root)
    present = os.path.join(root, "present.txt")

    def slot_of(v):
        if v is None:
            return None
        if v is S._PIPE_ALL:
            return "PIPE_ALL"
        if v is S._PIPE_ERR:
            return "PIPE_ERR"
        if v is sp.STDOUT or v == sp.STDOUT:
            return "STDOUT"
        if isinstance(v, int):
            return "fd2" if v == 2 else f"int:{v}"
        return ["file", 0, v.mode]

    def impl_streams(r, loc):
        try:
            t = S._redirect_streams(r, loc) if loc != "absent" else S._redirect_streams(r)
        except BaseException as e:  # noqa: BLE001
            return ["error", err_class([type(e).__name__, str(e)])]
        out = ["ok", [slot_of(x) for x in t]]
        for x in set(id(y) for y in t if hasattr(y, "close")):
            pass
        for y in t:
            if hasattr(y, "close"):
                y.close()
        return out

    try:
        for w, a in zip(allw, ans):
            try:
                g = S._parse_redirects(w)
                impl_p = ["ok", [g[0], g[1], g[2]]]
            except BaseException as e:  # noqa: BLE001
                impl_p = ["error", err_class([type(e).__name__, str(e)])]
            mp = a[0]
            model_p = ["error", str(mp[1])] if str(mp[0]) == "error" else ["ok", [mp[1][0], None if mp[1][1] is None else mp[1][1][1], mp[1][2]]]
            nontriv = not (model_p == ["error", "noMatch"])
            ctx.case(name, w, nontriv, {"operator": w} if nontriv else None)
            ctx.count("decoder/in-regex-language" if w in words else "decoder/near-miss")
            if impl_p != model_p:
                ctx.disagree(name, {"stream": name, "_parse_redirects": w}, impl_p, model_p)
            for locname, loc, ts in (("present", present, "present"), ("missing", os.path.join(root, "missing.txt"), "missing"), ("none", "absent", "present"), ("list", [present, present], "present")):
                if locname in ("none", "list", "missing") and w not in D["tokenizable"] and rng.random() < 0.8:
                    continue
                with open(present, "w") as f:
                    f.write("x\n")
                try:
                    os.unlink(os.path.join(root, "missing.txt"))
                except OSError:
                    pass
                im = impl_streams(w, loc)
                locsx = Sym("none") if locname == "none" else (Sym("many") if locname == "list" else [Sym("one"), 0])
                m = ctx.driver.call("c07.streams", tables_sx({w}), w, locsx, [Sym(ts)])
                mm = ["error", str(m[1])] if str(m[0]) == "error" else ["ok", [None if x is None else (str(x[1]) if not isinstance(x[1], list) else [str(x[1][0]), x[1][1], x[1][2]]) for x in m[1]]]
                ctx.case(name, (w, locname), nontriv)
                if im != mm:
                    ctx.disagree(name, {"stream": name, "_redirect_streams": w, "target": locname}, im, mm)
            # the property, directly on the implementation: a documented spelling decodes to its documented class
            if w in D["tokenizable"]:
                doc = a[2]
                want = None if doc is None else doc[1]
                loc = present if w in D["takes_target"] else "absent"
                im = impl_streams(w, loc)
                ok = doc is not None and im[0] == "ok" and _class_of_streams(im[1]) == _class_of_op(want)
                ctx.count("decoder/documented-spelling")
                if not ok:
                    ctx.spec_failure({"stream": name, "spelling": w}, {"_redirect_streams": im, "documented": None if want is None else [str(x) for x in want]},
                                     "a tokenizable redirect spelling does not decode to its documented meaning", None)
    finally:
        shutil.rmtree(root, ignore_errors=True)


def _class_of_op(op):
    k = str(op[0])
    mode = None if len(op) == 1 else ("a" if op[1] else "w")
    return {"outFile": [None, ["file", mode], None], "errFile": [None, None, ["file", mode]], "allFile": [None, ["file", mode], ["file", mode]],
            "errToOut": [None, None, "STDOUT"], "outToErr": [None, "fd2", None], "allToPipe": [None, "PIPE_ALL", "STDOUT"],
            "errToPipe": [None, None, "PIPE_ERR"], "input": [["file", "r"], None, None]}[k]


def _class_of_streams(t):
    return [None if x is None else (["file", x[2]] if isinstance(x, list) else x) for x in t]


def stream_lexer(ctx, name="lexer"):
    ctx.stream_rule(
        name,
        "the real Lexer on `cmd <op> target` for every tokenizable spelling (must come out as exactly ONE redirect token of the kind "
        "the translated tables say) and for near-misses that are in the language of _REDIR_REGEX but not tokenizable (must NOT come out "
        "as one redirect token: that is what keeps the `X>&N` remark of the decoder unreachable); non-trivial = all",
    )
    common.setup_repo_imports()
    from xonsh.parsers.lexer import Lexer

    redirect_types = {"IOREDIRECT1", "IOREDIRECT2", "GT", "LT", "RSHIFT"}

    def toks(src):
        lx = Lexer()
        lx.input(src)
        return [(t.type, t.value) for t in lx]

    tokenizable = set(D["tokenizable"])
    others = [r[0] for r in D["regex"] if r[0] not in tokenizable]
    sample = ctx.rng.sample(others, min(len(others), ctx.n(400, len(others))))
    for w in D["tokenizable"] + sample:
        src = f"![cmd {w} tgt]"
        try:
            tk = toks(src)
        except BaseException as e:  # noqa: BLE001
            tk = [("ERROR", str(e)[:80])]
        single = [t for t in tk if t[1] == w and t[0] in redirect_types]
        ctx.case(name, w, True, {"source": src} if w in tokenizable else None)
        if w in tokenizable:
            want = "IOREDIRECT1" if w in D["tok_check_single"] else ("IOREDIRECT2" if w in D["tok_check_map"] else D["plain_names"][w])
            if not single or single[0][0] != want:
                ctx.spec_failure({"stream": name, "spelling": w, "source": src}, {"tokens": tk[:12], "expected_token": want},
                                 "a documented redirect spelling is not lexed as one redirect token", None)
        elif single:
            ctx.disagree(name, {"stream": name, "operator": w, "source": src}, {"tokens": tk[:12]}, "not tokenizable as one redirect token according to the translated tables")


def detect_quirks(ctx, pool):
    """ask the implementation which of the seven deviations it still has: each known finding's witness is run and compared with the
    model with and without that deviation"""
    quirks = [True] * 7
    for f in ctx.known:
        if f["key"] not in QUIRKS:
            continue
        k = QUIRKS.index(f["key"])
        cell = f["witness"]["cell"]
        obs = observe(cell, pool.run_one(wire_cell(cell)))
        on = [False] * 7
        on[k] = True
        a_on = ctx.driver.call("c07.route", *cell_sx(cell, on))
        a_off = ctx.driver.call("c07.route", *cell_sx(cell, [False] * 7))
        so = spec_outcome(a_off)
        fails_spec = "infra" in obs or (so is not None and compare(cell, obs, so, "the documentation") is not None)
        matches_on = "infra" not in obs and compare(cell, obs, model_outcome(a_on), "m") is None
        quirks[k] = bool(fails_spec)
        ctx.replayed(f["key"], fails_spec, {"source": cell_source(cell), "status": f.get("status"), "observed": obs.get("where"), "raised": obs.get("exc"), "as_the_deviating_model_predicts": matches_on})
        if fails_spec:
            # an OPEN finding: known.  A FIXED finding whose witness fails again: its key is no longer open, so Ctx.finish reports a
            # VIOLATION under that key (the repair regressed)
            ctx.spec_failure({"stream": "known-witness" if f.get("status") == "open" else "fixed-witness", **describe(cell)},
                             {"where": obs.get("where"), "raised": obs.get("exc")},
                             f["what"] if f.get("status") == "open" else f"the witness of the repaired finding ({f.get('status')}) fails again: " + f["what"],
                             f["key"] if matches_on else None)
        elif str(f.get("status", "")).startswith("fixed"):
            ctx.count("fixed-witness-routed-as-documented")
    ctx.extra["deviations_present"] = {QUIRKS[i]: quirks[i] for i in range(7)}
    return quirks


def stream_matrix(ctx, pool, G, quirks, name="matrix"):
    fam = family_cells(G)
    total = len(fam)
    if ctx.quick():
        cells = ctx.rng.sample(fam, 900)
        ctx.exhaustive = False
    else:
        cells = fam + family_cells(G, cfg=(False, False, False), kinds=("proc", "ta")) + family_cells(G, cfg=(True, True, True), kinds=("proc", "ta", "ua"))
        ctx.exhaustive = True
    ctx.stream_rule(
        name,
        f"THE MATRIX ({total} cells at the default configuration; quick samples 900 of them by seed, thorough enumerates all of them and "
        "repeats the matrix with $THREAD_SUBPROCS off and with $XONSH_CAPTURE_ALWAYS + $XONSH_SUBPROC_CAPTURED_PRINT_STDERR on): every "
        "tokenizable spelling typed as real source text x stage kind (external command / external command predicted unthreadable / "
        "threaded callable alias / unthreaded callable alias) x position (only, first of 2, last of 2, middle of 3) x capture form "
        "($[], ![], $(), !()) x target present (old content) / missing; every stage records its stdin and writes O<i> / E<i>; target "
        "files, stage stdins, capture and the check's fds 1/2 are compared with the Lean model and with the documented routing; "
        "non-trivial = all",
    )
    evaluate(ctx, pool, name, cells, quirks)


def stream_random(ctx, pool, G, quirks, n, name="pipelines"):
    ctx.stream_rule(
        name,
        "seeded pipelines of 1-4 stages of mixed kinds, each stage with 0-4 redirects chosen by intent (stdout to file / append / to "
        "stderr / both to file / both into the pipe; stderr to file / append / to stdout / into the pipe; stdin from a file), every "
        "spelling of the chosen operator, redirect placed before / inside / after the command words, with and without a blank before "
        "the target, targets present / missing / in a missing directory, 7% with a second claim on a stream, pipe operators on the last "
        "stage, `<` against an incoming pipe, a list-valued target, all capture forms incl. bare, 35% non-default configuration; "
        "non-trivial = at least one redirect",
    )
    cells = [random_cell(ctx.rng, G) for _ in range(n)]
    evaluate(ctx, pool, name, cells, quirks)


MALFORMED = [
    "{c} 0 s0 o>p | xp 1 s1", "{c} 0 s0 1>p | xp 1 s1", "{c} 0 s0 &>p | xp 1 s1", "{c} 0 s0 >>> x0.txt", "{c} 0 s0 > > x0.txt", "{c} 0 s0 << in0.txt",
    "{c} 0 s0 o< in0.txt", "{c} 0 s0 e< in0.txt", "{c} 0 s0 >", "{c} 0 s0 e>", "{c} 0 s0 <", "| {c} 0 s0", "{c} 0 s0 |", "{c} 0 s0 | | xp 1 s1",
    "{c} 0 s0 >&2", "{c} 0 s0 2>&", "{c} 0 s0 2>&3", "{c} 0 s0 3> x0.txt", "{c} 0 s0 >& x0.txt", "{c} 0 s0 e>a", "{c} 0 s0 a>o", "{c} 0 s0 a>e",
    "{c} 0 s0 e>oo", "{c} 0 s0 e>ox", "{c} 0 s0 2>>&1", "{c} 0 s0 e>>o", "{c} 0 s0 a>>p | xp 1 s1", "{c} 0 s0 e>p e>p | xp 1 s1", "{c} 0 s0 p> x0.txt",
    "{c} 0 s0 all > x0.txt", "{c} 0 s0 err> out", "{c} 0 s0 >x0.txt>x1.txt", "{c} 0 s0 <in0.txt<in0.txt", "> x0.txt", "e>o", "< in0.txt | {c} 0 s0",
    "{c} 0 s0 e>o x0.txt", "{c} 0 s0 out>>err", "{c} 0 s0 1>>&2", "{c} 0 s0 &>&1", "{c} 0 s0 a>&1", "{c} 0 s0 < in0.txt > in0.txt.out < in0.txt",
]


def stream_malformed(ctx, pool, name="malformed-source"):
    ctx.stream_rule(
        name,
        "near-miss and malformed redirect text typed as source (operators that do not exist, missing targets, doubled operators, stray "
        "pipes, POSIX forms xonsh does not have) on every stage kind and capture form: either a SyntaxError / XonshError is raised and "
        "nothing is delivered, or the text has another valid reading and then every stage that ran delivered each of its two tags "
        "exactly once (nothing lost, nothing duplicated, no internal exception); non-trivial = all",
    )
    cells = []
    for tmpl in MALFORMED:
        # stage kinds / capture forms on which none of the seven known deviations can interfere with these texts
        for c, cap in (("xp", "bare"), ("xp", "uncaptured"), ("xp", "stdout"), ("xp", "object"), ("ta", "bare"), ("ta", "stdout"), ("ta", "object"), ("ua", "stdout")):
            if True:
                if ctx.quick() and ctx.rng.random() < 0.5:
                    continue
                body = tmpl.format(c=c)
                src = {"bare": body, "uncaptured": f"$[{body}]", "stdout": f"r = $({body})", "object": f"r = !({body})"}[cap]
                cells.append({"src": src, "files": {"x0.txt": "PRE0\n", "x1.txt": "PRE1\n", "in0.txt": "IN0\n"}, "thread": True, "always": False, "printerr": False})
    results = pool.run_many(cells)
    for wc, res in zip(cells, results):
        ctx.case(name, wc["src"], True, {"source": wc["src"]})
        if res.get("hang") or res.get("died"):
            ctx.spec_failure({"stream": name, "source": wc["src"]}, res, "malformed redirect text makes the interpreter hang or die", None)
            continue
        files = res["files"]
        n = 1 + wc["src"].count("|")
        everything = []
        for fn, c in files.items():
            if not fn.startswith("s"):
                everything += _lines(c)
        r = res["r"]
        if isinstance(r, str):
            everything += _lines(r)
        elif isinstance(r, dict):
            everything += _lines(r["out"] or "") + _lines(r["err"] or "")
        for i in range(n):
            if f"s{i}" in files:
                everything += [ln for ln in _lines(files[f"s{i}"]) if re.fullmatch(r"[OE]\d", ln)]
        counts = {f"{s}{i}": everything.count(f"{s}{i}") for i in range(n) for s in "OE"}
        ran = [f"s{i}" in files for i in range(n)]
        exc = res["exc"]
        cls = err_class(exc)
        if exc is not None and cls in ("syntax", "emptyCmd", "multiStdin", "multiStdout", "multiStderr", "needsPipe", "unthreadable", "unrecognized", "openFailed", "unsupportedLoc"):
            ok = not any(ran) and not any(counts.values())
            why = "an error is reported but part of the pipeline ran"
        elif exc is not None:
            ok = False
            why = "malformed redirect text ends in an internal exception instead of a reported error"
        else:
            ok = all(counts[f"{s}{i}"] == (1 if ran[i] else 0) for i in range(n) for s in "OE")
            why = "a stage's tagged output was lost or duplicated"
        ctx.count("malformed/" + ("error" if exc is not None else "other-reading"))
        if not ok:
            ctx.spec_failure({"stream": name, "source": wc["src"]}, {"raised": exc, "tag_counts": counts, "ran": ran}, why, None)


# ---------------------------------------------------------------------------------------------------------------- entry points
def run(ctx):
    ctx.assumptions += [
        "open(path, 'w') truncates and open(path, 'a') appends (checked through the old content of every present target)",
        "a stage of the harness reads its stdin to the end, then writes one line to stdout and one to stderr; XSH.stdout_uncaptured / stderr_uncaptured are None (no Jupyter-style sink)",
        "`o>e` together with `e>o` in one command is outside the documented domain (never generated)",
        "an observation that does not reproduce in 3 of 3 runs is not a routing failure (counted as nondeterministic-observation)",
    ]
    ctx.explanation = (
        "Gen/Redir.lean is regenerated from /repo every run (decoder tables, the 2352-word language of _REDIR_REGEX with its groups, tokenizer "
        "spellings, lexer operators, grammar rule shape); Model/Redir.lean models decoding, slots, pipe wiring, capture-kind stream choice, "
        "per-executor handle choice and delivery, with the seven deviations switchable, and states the documented routing (specRoute); "
        "Lemmas/Redir*.lean + Props/C07.lean prove the spelling table, the conflict rule, mode w/a, routing = documentation for all pipelines "
        "(the code as it is now, all seven deviations repaired: C07_route; the pinned snapshot outside the deviation regions: C07_route_partial) and the snapshot's behaviour on each witness (C07_cex_*). "
        "The tie types every spelling as source through the real Execer in a forked child (one per cell) whose own fds are the terminal."
    )
    if D is None or not D.get("regex"):
        ctx.translator_errors.append("no tables: the redirect tables could not be read from the working tree")
        return
    G = spellings_by_op(ctx)
    ctx.extra["spellings_by_documented_meaning"] = {k: len(v) for k, v in sorted(G.items())}
    stream_tables(ctx)
    stream_lexer(ctx)
    pool = Pool(ctx.n(6, 10))
    try:
        quirks = detect_quirks(ctx, pool)
        stream_matrix(ctx, pool, G, quirks)
        stream_random(ctx, pool, G, quirks, ctx.n(700, 9000))
        stream_malformed(ctx, pool)
    finally:
        pool.close()


def search(ctx, reason):
    ctx.extra["search_reason"] = reason
    if D is None or not D.get("regex"):
        return
    G = spellings_by_op(ctx)
    pool = Pool(8)
    try:
        quirks = [ctx.extra.get("deviations_present", {}).get(q, True) for q in QUIRKS]
        evaluate(ctx, pool, "search:matrix", family_cells(G), quirks)
        evaluate(ctx, pool, "search:pipelines", [random_cell(ctx.rng, G) for _ in range(ctx.n(1500, 4000))], quirks)
    finally:
        pool.close()


def replay(ctx, path):
    r = json.loads(open(path).read())
    c = r["case"]
    translate(ctx)
    pool = Pool(1)
    try:
        if "cell" in c:
            cell = c["cell"]
            res = pool.run_one(wire_cell(cell))
            obs = observe(cell, res)
            ans = ctx.driver.call("c07.route", *cell_sx(cell, [False] * 7))
            so = spec_outcome(ans)
            print("source:", cell_source(cell))
            print("observed:", {k: obs.get(k) for k in ("exc", "where", "pre_kept", "stray")})
            bad = "infra" in obs or (so is not None and compare(cell, obs, so, "the documentation") is not None)
            if bad and "infra" not in obs:
                print(compare(cell, obs, so, "the documentation"))
        elif "source" in c:
            res = pool.run_one({"src": c["source"], "files": {"x0.txt": "PRE0\n", "x1.txt": "PRE1\n", "in0.txt": "IN0\n"}})
            print("observed:", res)
            print("re-run ./check C07 with the same seed for the verdict on this stream")
            return common.EXIT_INFRA
        else:
            print("re-run ./check C07 with the same seed for this stream")
            return common.EXIT_INFRA
    finally:
        pool.close()
    print(f"VIOLATION property={ID} replay={path}" if bad else "the documented routing holds on this cell")
    return common.EXIT_VIOLATION if bad else common.EXIT_OK
