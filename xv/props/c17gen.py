"""Program generator for C17 (imported by c17.py; kept apart only for size).

Templates use two gap markers:
  OG  an OPTIONAL gap   — any amount of blanks, including none, is allowed there by the language
  RG  a REQUIRED gap    — at least one blank (subprocess arguments, keywords next to names)
Everything else in a template is literal text.  `render` resolves the markers under a spacing style and
never lets two pieces of text merge into a different token when it picks "no blank".
"""

from __future__ import annotations

CLAIMED = False  # helper module, not a property (tools/mkmanifest.py skips it)
OG = "\x01"
RG = "\x02"

WORD = "abcdefghijklmnopqrstuvwxyzABCDEFGHIJKLMNOPQRSTUVWXYZ0123456789_"
OPCH = "+-*/%&|^<>=!~@$?:."

PY_NAMES = ["a", "b", "c", "x", "y", "z", "foo", "bar", "val", "n", "items", "res", "data_1", "_tmp", "self.v", "obj.attr.sub", "é", "名"]
# names a generated program treats as Python objects of the session (the context the program is parsed in)
PY_CTX = ["a", "b", "c", "x", "y", "z", "foo", "bar", "val", "n", "items", "res", "data_1", "_tmp", "self", "obj", "é", "名", "i", "q", "w", "k", "p", "d", "f", "g", "_h",
          "method", "A", "Foo", "Base", "B", "M", "deco", "mod", "aliases", "ctx", "Block", "mgr", "mac", "r", "g1", "g2", "args", "kw", "err", "lit", "os", "osp", "path", "sep", "m"]
CMD_NAMES = ["ls", "echo", "git", "grep", "cat", "cd", "docker", "pip", "curl", "mkdir", "rm", "tar", "make", "ssh", "scp", "chown", "touch", "xargs"]
CMD_PATHS = ["./run.sh", "~/bin/tool", "/usr/bin/env", "$HOME/bin/x", "../up/cmd", "@(cmd)", "@('e' + 'cho')"]
NUMBERS = ["0", "1", "42", "3.14", "1.", ".5", "1e5", "1E-3", "0x1F", "0b101", "0o17", "1_000", "2j", "10"]
STRINGS = [
    "'a'", '"b"', "''", '""', "'it\\'s'", '"say \\"hi\\""', "'a  b'", '" lead and trail "', "r'\\d+'", 'b"by"', "rb'x\\n'", "u'u'",
    "'#nocomment'", '"a#b"', "'a,b:c=d'", '"x == y"', "'''t1'''", '"""t2"""', "'''multi\nline'''", '"""doc\n    indented\n"""',
    '"""trail \nspace"""', "'''tab\t\nend'''", '"""blank\n\n\nlines"""', "'''  \n'''", "p'/tmp/x'", 'pr"C:\\dir"', "'a' 'b'", '"x" "y"',
    "'''q'uo\"te'''", "'é ü'", '"\\\\"', "'\\n'", '"""a\\\nb"""', "'con' \\\n    'cat'",
]
FSTRINGS = [
    'f"{x}"', "f'{x!r}'", 'f"{x:>10}"', 'f"{x = }"', 'f"{x=}"', 'f"{ x }"', 'f"{x:{w}.{p}f}"', 'f"{{lit}} {x}"', 'f"a {x} b {y} c"', "f'{d[\"k\"]}'",
    'f"{x + 1}"', 'f"{f(a, b)}"', 'f"{x if y else z}"', 'f"""m {x}\n  line2 {y}\n"""', 'f"""trail {x} \nnext"""', 'f"{a}{b}"', 'f"{x!r:^8}"',
    'rf"\\d{x}"', 'f"{$HOME}"', 'f"{$(echo hi)}"', "f'{x:%Y-%m-%d}'", 'f"{x,}"', 'f"{[1, 2][0]}"', 'f"{ {1: 2}[1] }"', 'f"{(lambda q: q)(1)}"',
    'f"{x:=^10}"', 'f"{(y := 5)}"', 'f"{x  +  y}"', 'f"{x   =   }"', 'F"{x}"', 'fr"{x}\\n"', "f'''{\nx  +\n  y}'''",
]
SUB_ARGS = [
    "a", "b", "file.txt", "-l", "-la", "--long", "--key=value", "--key", "-n", "5", "10", "*.py", "**/*.txt", "?", "a?b", "dir/", "./x", "../y", "~/z", "/abs/path",
    "$HOME", "$HOME/x", "${'PATH'}", "@(x)", "@(x)y", "@([1, 2])", "@(f(a, b))", "$(echo in)", "@$(which ls)", "'quoted arg'", '"dq  arg"', "r'raw\\n'", 'f"{x}"',
    "a,b", "a:b", "k=v", "x==y", "x>=1", "http://example.com/p?q=1", "user:group", "80:80", "user@host:path", "[ab]*", "a;b" , "1", "2.5", "-", "--", "a-b", "a.b.c",
    "+x", "a+b", "a=b=c", "%d", "a%b", "^C", "a|b".replace("|", "_"), "a_b", "#notcomment".replace("#", "_h"), "`re.*`", "g`*.py`", "if", "for", "in", "and".upper(),
    "is", "x[0]", "é", "名.txt", "a\\ b", "--flag=@(x)", "-o=$HOME", "$X=1".replace("$X=1", "X=1"),
]
REDIRS = ["> out.txt", ">> log", "< in.txt", "2> err.txt", "2>&1", "e>o", "o>e", "a> all.txt", "err> e.txt", "out> o.txt", "e>> e.log", "1>2".replace("1>2", "1> two"), "all>> a.log"]
COMMENTS = ["# c", "#c", "#  two", "# trail  ", "#", "##", "# x = 1", "#def f():", "#!shebang", "# é", "# a # b", "# 'q", '# "q', "# $(x)", "#\ttab"]
MACRO_RAW = ["a b", "a   b", "x  =  1", "1 +   2", "'q  q'", "a,b", "a , b", "if  x:", "(  a  )", "[1,2 , 3]", "$HOME  x", "--f=v  -l", "a ;b", "a:b", "a == b", "a==b", "# not", "a\tb"]


class Gen:
    def __init__(self, rng, profile=None, small=False):
        self.small = small
        self.rng = rng
        r = rng.random()
        self.unit = rng.choice(["\t", "  ", "    ", "        ", "    ", "   "]) if profile is None else profile.get("unit", "    ")
        # spacing style: how optional gaps are resolved
        self.style = rng.choice(["tight", "one", "loose", "mixed", "mixed", "mixed"])
        self.features = set()
        self.depth_limit = 3
        self.cont_rate = rng.choice([0.0, 0.0, 0.03, 0.08])
        self.blank_ws = r < 0.3
        self.in_block_macro = 0
        self.last_kind = "py"

    # ------------------------------------------------------------------ atoms
    def ch(self, xs):
        return self.rng.choice(xs)

    def name(self):
        return self.ch(PY_NAMES[:14]) if self.rng.random() < 0.93 else self.ch(PY_NAMES)

    def simple_name(self):
        return self.ch(["a", "b", "c", "x", "y", "z", "foo", "bar", "val", "n", "items", "res"])

    def string(self):
        s = self.ch(STRINGS)
        if "\n" in s:
            self.features.add("multiline-string")
        return s

    def fstring(self):
        if self.in_block_macro:
            return self.string()
        self.features.add("fstring")
        return self.ch(FSTRINGS)

    def atom(self):
        r = self.rng.random()
        if r < 0.34:
            return self.name()
        if r < 0.50:
            return self.ch(NUMBERS)
        if r < 0.64:
            return self.string()
        if r < 0.72:
            return self.fstring()
        if r < 0.78:
            return self.ch(["None", "True", "False", "..."])
        if r < 0.84:
            self.features.add("envvar")
            return self.ch(["$HOME", "$PATH", "${'X'}", "${" + OG + "'X' + 'Y'" + OG + "}", "$X_1"])
        if r < 0.94:
            self.features.add("captured-subproc")
            opener = self.ch(["$(", "!(", "$[", "!["])
            closer = ")" if opener[1] == "(" else "]"
            return opener + OG + self.subproc_words(inside=True) + OG + closer
        self.features.add("searchpath")
        return self.ch(["`.*\\.py`", "g`*.txt`", "p`x.*`", "`a b`", "@foo`bar`".replace("@foo", "g")])

    def expr(self, d=0):
        r = self.rng.random()
        if d >= self.depth_limit or r < 0.30:
            return self.atom()
        e = lambda: self.expr(d + 1)  # noqa: E731
        if r < 0.42:
            op = self.ch(["+", "-", "*", "/", "//", "%", "**", "<<", ">>", "&", "|", "^", "@"])
            return e() + OG + op + OG + e()
        if r < 0.50:
            op = self.ch(["==", "!=", "<", "<=", ">", ">=", "is", "is" + RG + "not", "in", "not" + RG + "in"])
            return self.paren_if(e()) + RG + op + RG + self.paren_if(e())
        if r < 0.56:
            op = self.ch(["and", "or"])
            return e() + RG + op + RG + e()
        if r < 0.60:
            if self.rng.random() < 0.3:
                return "(" + OG + "not" + RG + e() + OG + ")"
            return self.ch(["-", "+", "~"]) + self.paren_if(e())
        if r < 0.68:
            args = [e() for _ in range(self.rng.randint(0, 3))]
            if self.rng.random() < 0.5:
                args.append(self.simple_name() + OG + "=" + OG + e())
            if self.rng.random() < 0.15:
                args.append("*" + self.simple_name())
            if self.rng.random() < 0.15:
                args.append("**" + self.simple_name())
            return self.name() + "(" + OG + self.commas(args) + OG + ")"
        if r < 0.74:
            k = self.rng.random()
            if k < 0.4:
                return self.name() + "[" + OG + e() + OG + "]"
            if k < 0.8:
                return self.name() + "[" + OG + e() + OG + ":" + OG + e() + OG + "]"
            return self.name() + "[" + OG + ":" + OG + ":" + OG + self.ch(NUMBERS[:3]) + OG + "]"
        if r < 0.80:
            items = [e() for _ in range(self.rng.randint(0, 4))]
            o, c = self.ch([("[", "]"), ("(", ")"), ("{", "}")])
            if o == "{" and not items:
                return "{" + OG + "}"
            if o == "(" and len(items) == 1:
                return "(" + OG + items[0] + OG + "," + OG + ")"
            body = self.commas(items, multiline=self.rng.random() < 0.25)
            return o + OG + body + OG + c
        if r < 0.85:
            items = [self.string() + OG + ":" + OG + e() for _ in range(self.rng.randint(1, 3))]
            return "{" + OG + self.commas(items, multiline=self.rng.random() < 0.3) + OG + "}"
        if r < 0.89:
            self.features.add("lambda")
            params = self.ch(["", RG + "q", RG + "q" + OG + "," + OG + "w", RG + "q" + OG + "=" + OG + "1", RG + "*a" + OG + "," + OG + "**k"])
            return "(" + OG + "lambda" + params + OG + ":" + OG + e() + OG + ")"
        if r < 0.93:
            return "(" + OG + e() + RG + "if" + RG + e() + RG + "else" + RG + e() + OG + ")"
        if r < 0.96:
            return "[" + OG + e() + RG + "for" + RG + "i" + RG + "in" + RG + e() + (RG + "if" + RG + e() if self.rng.random() < 0.4 else "") + OG + "]"
        if r < 0.98:
            return "(" + OG + self.simple_name() + OG + ":=" + OG + e() + OG + ")"
        return "(" + OG + e() + OG + ")"

    def paren_if(self, s):
        return "(" + OG + s + OG + ")" if self.rng.random() < 0.25 else s

    def commas(self, items, multiline=False):
        if not items:
            return ""
        if multiline:
            self.features.add("bracket-multiline")
            pad = self.ch(["    ", "  ", "\t", "        ", ""])
            out = "\n"
            for i, it in enumerate(items):
                if self.rng.random() < 0.2:
                    self.features.add("comment-in-brackets")
                    out += pad + self.ch(COMMENTS) + "\n"
                last = i == len(items) - 1
                tail = ("," if (not last or self.rng.random() < 0.6) else "")
                cm = (self.ch(["  ", " ", "    "]) + self.ch(COMMENTS)) if self.rng.random() < 0.15 else ""
                if cm.endswith("") and cm and not tail and cm.lstrip() == cm:
                    cm = " " + cm
                out += pad + it + OG + tail + cm + "\n"
                if self.rng.random() < 0.1:
                    out += "\n"
            return out + self.ch(["", "  ", "    "])
        out = items[0]
        for it in items[1:]:
            out += OG + "," + OG + it
        if self.rng.random() < 0.1:
            out += OG + ","
        return out

    # ------------------------------------------------------------------ subprocess text
    def subproc_words(self, inside=False):
        self.features.add("subproc")
        n = self.rng.randint(0, 4)
        head = self.ch(CMD_NAMES) if (inside or self.rng.random() < 0.85) else self.ch(CMD_PATHS)
        words = [head] + [self.sub_arg() for _ in range(n)]
        s = words[0]
        for w in words[1:]:
            s += RG + w
        r = self.rng.random()
        if r < 0.12:
            self.features.add("pipe")
            conn = [RG + "|" + RG, OG + "|" + OG] + ([] if inside else [RG + "&&" + RG, RG + "||" + RG, RG + "and" + RG, RG + "or" + RG])
            s += self.ch(conn) + self.ch(CMD_NAMES) + RG + self.sub_arg()
        elif r < 0.2 and not inside:
            self.features.add("redirect")
            s += RG + self.ch(REDIRS)
        elif r < 0.23 and not inside:
            s += RG + "&"
        return s

    def sub_arg(self):
        a = self.ch(SUB_ARGS)
        while self.in_block_macro and a.startswith('f"'):
            a = self.ch(SUB_ARGS)
        if "\n" in a:
            self.features.add("multiline-string")
        return a

    def subproc_line(self):
        self.last_kind = "sub"
        s = self.subproc_words()
        if self.rng.random() < 0.08:
            s += OG + ";" + OG + self.subproc_words()
        return s

    def macro_line(self):
        self.last_kind = "macro"
        self.features.add("macro")
        r = self.rng.random()
        if r < 0.5:
            return self.ch(CMD_NAMES[:4] + ["mymacro"]) + "!" + self.ch([" ", "  ", "\t", " "]) + self.ch(MACRO_RAW) + self.ch(["", "", " ", "  " + self.ch(MACRO_RAW)])
        args = [self.ch(MACRO_RAW) for _ in range(self.rng.randint(1, 3))]
        call = self.ch(["f", "mac", "obj.m"]) + "!(" + self.ch(["", " ", "  "]) + self.ch([", ", ",", " ,  "]).join(a for a in args if "#" not in a) + self.ch(["", " "]) + ")"
        return call if self.rng.random() < 0.6 else "r" + OG + "=" + OG + call

    # ------------------------------------------------------------------ statements
    def simple_stmt(self):
        r = self.rng.random()
        e = self.expr
        if r < 0.22:
            tgt = self.ch([self.name(), self.simple_name() + OG + "," + OG + self.simple_name(), self.simple_name() + "[" + OG + e(2) + OG + "]", "$" + self.ch(["X", "HOME", "FOO_BAR"]),
                           self.simple_name() + OG + "=" + OG + self.simple_name()])
            return tgt + OG + "=" + OG + e()
        if r < 0.28:
            return self.name() + OG + self.ch(["+=", "-=", "*=", "/=", "//=", "%=", "**=", "|=", "&=", "^=", "<<=", ">>=", "@="]) + OG + e()
        if r < 0.32:
            return self.simple_name() + OG + ":" + OG + self.ch(["int", "str", "list[int]", "dict[str," + OG + "int]"]) + (OG + "=" + OG + e() if self.rng.random() < 0.7 else "")
        if r < 0.42:
            return e()
        if r < 0.60:
            return self.subproc_line()
        if r < 0.66:
            return self.macro_line()
        if r < 0.70:
            return self.ch(["import" + RG + "os", "import" + RG + "os.path" + RG + "as" + RG + "osp", "from" + RG + "os" + RG + "import" + RG + "path" + OG + "," + OG + "sep",
                            "from" + RG + "." + RG + "import" + RG + "x", "from" + RG + ".." + "m" + RG + "import" + RG + "(" + OG + "a" + OG + "," + OG + "b" + OG + ")", "import" + RG + "a" + OG + "," + OG + "b"])
        if r < 0.76:
            return self.ch(["pass", "return" + RG + e(), "return", "del" + RG + self.simple_name(), "assert" + RG + e() + OG + "," + OG + self.string(), "raise" + RG + "ValueError(" + OG + self.string() + OG + ")",
                            "global" + RG + "g1" + OG + "," + OG + "g2", "raise", "yield" + RG + e(), "print(" + OG + e() + OG + ")", "break", "continue"])
        if r < 0.80:
            return self.simple_stmt_nosemi() + OG + ";" + OG + self.simple_stmt_nosemi()
        if r < 0.84:
            self.features.add("help")
            return self.ch(["x?", "x??", "os.path?", "ls?"])
        if r < 0.90:
            return self.simple_name() + OG + "=" + OG + self.string()
        if r < 0.95:
            return self.simple_name() + OG + "=" + OG + self.fstring()
        return "print(" + OG + self.fstring() + OG + "," + OG + self.string() + OG + ")"

    def simple_stmt_nosemi(self):
        return self.ch([self.simple_name() + OG + "=" + OG + self.expr(2), "print(" + OG + self.expr(2) + OG + ")", self.name() + OG + "+=" + OG + "1", "pass"])

    def header(self, d):
        r = self.rng.random()
        e = lambda: self.expr(1)  # noqa: E731
        if r < 0.25:
            return ["if" + RG + e() + OG + ":"], ["elif" + RG + e() + OG + ":", "else" + OG + ":"]
        if r < 0.40:
            return ["for" + RG + self.simple_name() + RG + "in" + RG + e() + OG + ":"], ["else" + OG + ":"]
        if r < 0.48:
            return ["while" + RG + e() + OG + ":"], []
        if r < 0.66:
            params = self.ch(["", "a", "a" + OG + "," + OG + "b", "a" + OG + "=" + OG + "1", "a" + OG + ":" + OG + "int" + OG + "=" + OG + "1" + OG + "," + OG + "*args" + OG + "," + OG + "**kw",
                              "self" + OG + "," + OG + "x" + OG + ":" + OG + "str", "a" + OG + "," + OG + "/" + OG + "," + OG + "b" + OG + "," + OG + "*" + OG + "," + OG + "c" + OG + "=" + OG + "None"])
            ret = (OG + "->" + OG + self.ch(["int", "None", "list[str]"])) if self.rng.random() < 0.4 else ""
            deco = []
            if self.rng.random() < 0.25:
                deco = ["@" + self.ch(["deco", "mod.deco", "deco(" + OG + "1" + OG + ")", "aliases.register(" + OG + "'n'" + OG + ")"])]
            pre = "async" + RG if self.rng.random() < 0.1 else ""
            return deco + [pre + "def" + RG + self.ch(["f", "g", "_h", "method"]) + OG + "(" + OG + params + OG + ")" + ret + OG + ":"], []
        if r < 0.74:
            return ["class" + RG + self.ch(["A", "Foo"]) + self.ch(["", "(" + OG + "Base" + OG + ")", "(" + OG + ")", "(" + OG + "B" + OG + "," + OG + "metaclass" + OG + "=" + OG + "M" + OG + ")"]) + OG + ":"], []
        if r < 0.84:
            return ["try" + OG + ":"], ["except" + RG + "ValueError" + RG + "as" + RG + "err" + OG + ":", "except" + OG + ":", "finally" + OG + ":"]
        if r < 0.94:
            item = e() + (RG + "as" + RG + self.simple_name() if self.rng.random() < 0.6 else "")
            return ["with" + RG + item + OG + ":"], []
        self.features.add("block-macro")
        return ["with!" + RG + self.ch(["ctx", "Block()", "mgr"]) + OG + ":"], []

    def block(self, d, indent):
        """list of physical lines (without trailing newline chars, may contain embedded newlines for multi-line tokens)"""
        lines = []
        n = self.rng.randint(1, 3) if self.small else self.rng.randint(1, 4 if d else 7)
        for _ in range(n):
            lines += self.blank_run(d)
            if self.rng.random() < 0.14:
                lines.append(self.comment_line(indent))
            if d < (2 if self.small else 3) and self.rng.random() < (0.30 if d == 0 else 0.22):
                lines += self.compound(d, indent)
            else:
                self.last_kind = "py"
                s = self.simple_stmt()
                if self.rng.random() < 0.12 and self.last_kind != "macro":
                    self.features.add("inline-comment")
                    pads = ["  ", " ", "     ", "  ", " ", " \t "]
                    if self.rng.random() < 0.06:
                        self.features.add("comment-lead-not-blank")
                        pads = ["", "\t"] if self.last_kind == "py" else ["\t"]
                    s += self.ch(pads) + self.ch(COMMENTS)
                lines.append(indent + s)
        return lines

    def compound(self, d, indent):
        self.features.add("block")
        heads, follow = self.header(d)
        is_macro = heads[-1].startswith("with!")
        if is_macro:
            self.in_block_macro += 1
        lines = [indent + h for h in heads]
        if self.rng.random() < 0.08:
            # one-line body
            lines[-1] += OG + self.simple_stmt_nosemi()
        else:
            if self.rng.random() < 0.1:
                lines[-1] += self.ch(["  ", " "]) + self.ch(COMMENTS)
            if self.rng.random() < 0.12 and heads[-1].startswith(("def", "class", "async")):
                self.features.add("docstring")
                lines.append(indent + self.unit + self.ch(['"""Doc."""', '"""Doc\n' + indent + self.unit + 'more  \n' + indent + self.unit + '"""', "'''D\n\n  x\n'''", '"""T \n"""']))
            lines += self.block(d + 1, indent + self.unit)
        chosen = [f for f in follow if self.rng.random() < 0.35]
        if heads[-1].startswith("try") and not chosen:
            chosen = [self.ch(follow)]
        for f in chosen:
            lines.append(indent + f)
            lines += self.block(d + 1, indent + self.unit)
        if is_macro:
            self.in_block_macro -= 1
        return lines

    def comment_line(self, indent):
        self.features.add("comment-line")
        r = self.rng.random()
        if r < 0.7:
            pad = indent
        elif r < 0.85:
            pad = indent + self.ch([" ", "  ", self.unit])
        else:
            pad = indent[: max(0, len(indent) - 1)]
        return pad + self.ch(COMMENTS)

    def blank_run(self, d):
        k = self.ch([0, 0, 0, 0, 1, 1, 2, 3, 5])
        if k:
            self.features.add(f"blank-run-{min(k, 3)}")
        out = []
        for _ in range(k):
            out.append(self.ch(["", "", "  ", "\t", "    "]) if self.blank_ws else "")
        return out

    # ------------------------------------------------------------------ rendering
    def render(self, text):
        rng, style = self.rng, self.style
        out = []
        i, n = 0, len(text)
        line_has_code = False
        while i < n:
            c = text[i]
            if c not in (OG, RG):
                out.append(c)
                i += 1
                continue
            # collapse consecutive markers: required wins
            req = False
            while i < n and text[i] in (OG, RG):
                req = req or text[i] == RG
                i += 1
            prev = out[-1] if out else "\n"
            nxt = text[i] if i < n else "\n"
            if prev in " \t\n" or nxt in " \t\n":
                if req and not (prev in " \t" or nxt in " \t"):
                    out.append(" ")
                continue
            must = req or self.would_merge(prev, nxt)
            if style == "tight":
                gap = " " if must else ""
            elif style == "one":
                gap = " "
            elif style == "loose":
                gap = rng.choice([" ", "  ", "   ", "\t", " \t "])
            else:
                gap = rng.choice(["", "", " ", " ", "  ", "\t", "    "])
                if must and not gap:
                    gap = " "
            if self.cont_rate and rng.random() < self.cont_rate and self.cont_ok(out):
                self.features.add("continuation")
                gap = rng.choice([" ", "", "  "]) + "\\\n" + rng.choice(["", " ", "    ", "\t", "        ", "  "])
                if must and gap.endswith("\n") and False:
                    gap += " "
            out.append(gap)
        return "".join(out)

    @staticmethod
    def would_merge(a, b):
        if a in WORD or ord(a) > 127:
            if b in WORD or ord(b) > 127 or b in "'\"`.":
                return True
        if a in OPCH and b in OPCH:
            return True
        if a == "." and b in "0123456789":
            return True
        if a in "'\"" and b == a:
            return True
        if a in "$@!" and (b in WORD or b in "([{`"):
            return True
        if b == "#":
            return True
        if a in WORD and b in ">":
            return True
        if a == ")" and b == "(":
            return False
        return False

    def cont_ok(self, out):
        # no continuation inside a comment or right after a line start
        j = len(out) - 1
        line = []
        while j >= 0 and out[j] != "\n" and not out[j].endswith("\n"):
            line.append(out[j])
            j -= 1
        s = "".join(reversed(line))
        return bool(s.strip()) and "#" not in s and "!" not in s

    def program(self):
        lines = self.block(0, "")
        r = self.rng.random()
        head = []
        if r < 0.08:
            head = ["#!/usr/bin/env xonsh"]
        elif r < 0.12:
            head = ["# -*- coding: utf-8 -*-"]
        elif r < 0.2:
            head = [""] * self.rng.randint(1, 3)
        text = "\n".join(head + lines)
        text = self.render(text)
        r = self.rng.random()
        if r < 0.70:
            text += "\n"
        elif r < 0.80:
            pass
        elif r < 0.90:
            text += "\n" * self.rng.randint(2, 4)
        elif r < 0.95:
            text += "  \n \t\n"
        else:
            self.features.add("eof-continuation")
            text += " \\\n\n"
        if self.rng.random() < 0.04:
            self.features.add("crlf")
            text = text.replace("\n", "\r\n")
        if self.rng.random() < 0.03:
            self.features.add("formfeed")
            text = text.replace("\n\n", "\n\f\n", 1)
        return text


def damage(rng, src):
    """a malformed variant of a program"""
    r = rng.random()
    if not src:
        return '"""'
    if r < 0.2:
        return src + rng.choice(['"""', "'''", 'f"""', "x = (1,\n", "y = [\n", "z = {", 'f"{', "s = f'''a{x}\n"])
    if r < 0.35:
        # break the indentation structure
        lines = src.split("\n")
        idx = [i for i, l in enumerate(lines) if l.startswith((" ", "\t")) and l.strip()]
        if idx:
            i = rng.choice(idx)
            lines[i] = rng.choice([" ", "   ", "  \t"]) + lines[i].lstrip()
            return "\n".join(lines)
        return src + "\n      x = 1\n  y = 2\n"
    if r < 0.5:
        # drop a closing bracket / quote
        pos = [i for i, c in enumerate(src) if c in ")]}\"'"]
        if pos:
            i = rng.choice(pos)
            return src[:i] + src[i + 1 :]
        return src + "("
    if r < 0.6:
        return src.rstrip("\n") + " \\"
    if r < 0.7:
        return src.rstrip("\n") + " \\\n"
    if r < 0.8:
        i = rng.randrange(len(src))
        return src[:i] + rng.choice(["\\", "$", "?", "`", "\x00", "}", "{", "'", '"', "\t", "\f", "\v", "\r"]) + src[i:]
    if r < 0.9:
        return src + rng.choice(['f"}"', "f'{x'", 'f"{x:{"', "f'''{\n", 'x = f"a}b"'])
    i = rng.randrange(len(src))
    j = min(len(src), i + rng.randint(1, 12))
    return src[:i] + src[j:]
