"""C14 — History garbage collection only ever discards the oldest, unlocked history."""

from __future__ import annotations

import contextlib
import os
import shutil
import sqlite3
import time
import types
import uuid

from .. import common
from ..codec import Sym

ID = "C14"
LEVEL = "proof"
GEN_MODULES = ["XonshVerif.Gen.HistGc"]
PROPS_MODULES = ["XonshVerif.Props.C14"]
TECHNIQUE = "Lean 4 proof (refinement of translated code to a recursive spec; induction over the file list) + translator + differential correspondence"
LEVEL_TEXT = (
    "proof: the four JSON selection functions, the refuse guard, the lock filter and the unit dispatch table are translated "
    "from /repo's source to Lean on every run; theorems (all file lists, all limits >= 0, all units) show the translated code "
    "equals the spec 'discard oldest until the rest fits' and derive oldest-first, fits, maximality, no-op-within-limit, "
    "locked-never-deleted and the refuse rule. The SQLite keep-newest-N clause is a hand model with theorems, tied by "
    "differential runs against the real SQLite backend."
)
LEVEL_NOTE = (
    "Trusted: Lean kernel + propext/Classical.choice/Quot.sound; the PyLite translator (validated each run by evaluating the "
    "generated Lean and the Python function on the same inputs); float timestamps modelled as Int; Python's tuple sort; "
    "directory listing, file parsing (LazyJSON) and SQLite are exercised end-to-end, not modelled."
)

UNITS = ["commands", "files", "s", "b"]
PYFN = {
    "commands": "_xhj_gc_commands_to_rmfiles",
    "files": "_xhj_gc_files_to_rmfiles",
    "s": "_xhj_gc_seconds_to_rmfiles",
    "b": "_xhj_gc_bytes_to_rmfiles",
}


# ------------------------------------------------------------------ translator
def translate(ctx):
    from translator import c14 as tr

    text, fps, errors = tr.generate(common.REPO)
    common.write_if_changed(common.module_path("XonshVerif.Gen.HistGc"), text)
    ctx.fingerprints.update(fps)
    ctx.translator_errors += errors
    ctx.trusted_base += [
        "translator/pylite.py + translator/c14.py (Python AST -> Lean defs); validated every run by "
        "evaluating the generated Lean defs and the real Python functions on the same inputs",
        "Python ints/floats for timestamps are modelled as Int ticks; list.sort() on tuples is trusted",
    ]


# ------------------------------------------------------------------ generators
def gen_files(rng, n=None, small=True):
    """sorted (oldest first) list of (ts, ncmds, id, size) with plenty of zeros, ties and boundaries"""
    n = rng.randint(0, 8) if n is None else n
    ts = sorted(rng.randint(0, 40) for _ in range(n))
    out = []
    for i, t in enumerate(ts):
        ncmds = rng.choice([0, 0, 1, 1, 2, 3, 5, 8])
        size = rng.choice([0, 1, 10, 100, 101, 250])
        out.append((t, ncmds, i, size))
    return out


def boundary_limits(unit, files, now, rng):
    tot = {
        "commands": sum(f[1] for f in files),
        "files": len(files),
        "b": sum(f[3] for f in files),
        "s": (now - files[0][0]) if files else 5,
    }[unit]
    cands = {0, 1, tot - 1, tot, tot + 1, tot // 2, rng.randint(0, max(tot, 1) + 2)}
    if unit == "s":
        cands |= {now - f[0] for f in files} | {now - f[0] + 1 for f in files}
    return sorted(c for c in cands if c >= 0)


# ------------------------------------------------------------------ impl adapters
def _hj():
    common.setup_repo_imports()
    import xonsh.history.json as hj

    return hj


def impl_select(hj, unit, hsize, files, now):
    fn = getattr(hj, PYFN[unit])
    real_time = hj.time
    hj.time = types.SimpleNamespace(time=lambda: now, sleep=real_time.sleep)
    try:
        so, rm = fn(hsize, [tuple(f) for f in files])
    finally:
        hj.time = real_time
    return [int(so), [list(f) for f in rm]]


class GenDriver:
    """the translated functions, evaluated by Lean (`lake env lean --run GenDriver/C14.lean`)"""

    def __init__(self):
        self.reqs = []

    def run(self, reqs):
        from ..codec import decode, encode_line

        lines = "\n".join(encode_line(*r) for r in reqs) + "\n"
        ok, out = common.lake_build(["Driver", "XonshVerif.Gen.HistGc"])
        if not ok:
            return None, out[-1500:]
        rc, so, se = common.lean_run_file(common.LEAN / "GenDriver" / "C14.lean", run=True, stdin=lines)
        if rc != 0:
            return None, (so + se)[-1500:]
        return [decode(l) for l in so.strip().split("\n")], None


# ------------------------------------------------------------------ streams
def stream_translated(ctx, hj, n):
    """translator validation: generated Lean defs vs the real Python functions"""
    name = "translated-vs-python"
    ctx.stream_rule(
        name,
        "random oldest-first file lists (0-8 files, zero counts, ties) x every unit x boundary limits "
        "(0,1,total-1,total,total+1,...); the Lean def generated from the source and the Python function "
        "must return the same (size_over, rm_files); non-trivial = at least one file and 0<removed<all or a boundary limit",
    )
    cases = []
    for _ in range(n):
        files = gen_files(ctx.rng)
        now = 50
        unit = ctx.rng.choice(UNITS)
        for hsize in boundary_limits(unit, files, now, ctx.rng):
            cases.append((unit, hsize, files, now))
    if any("unsupported construct" in e or "signature" in e for e in ctx.translator_errors):
        untranslated = {e.split(":")[0] for e in ctx.translator_errors}
        cases = [c for c in cases if PYFN[c[0]] not in untranslated]
    reqs = []
    for unit, hsize, files, now in cases:
        if unit == "s":
            reqs.append(("gen.s", hsize, files, now))
        else:
            reqs.append((f"gen.{ {'b': 'bytes'}.get(unit, unit) }".replace(" ", ""), hsize, files))
    outs, err = GenDriver().run(reqs) if reqs else ([], None)
    if outs is None:
        ctx.translator_errors.append("generated Lean does not evaluate: " + err)
        return
    for (unit, hsize, files, now), out in zip(cases, outs):
        impl = impl_select(hj, unit, hsize, files, now)
        nontriv = bool(files) and (0 < len(impl[1]) < len(files) or hsize in (0, 1))
        ctx.case(name, (unit, hsize, tuple(files)), nontriv, {"unit": unit, "hsize": hsize, "files": files, "python": impl})
        ctx.count(f"translated/{unit}")
        if impl != out:
            ctx.disagree(name, {"unit": unit, "hsize": hsize, "files": files, "now": now}, impl, out)


def classify(case):
    """name of the known finding whose classifier matches this failing case (else None)"""
    if case.get("unit") == "files" and case.get("hsize") == 0:
        return "files-limit-zero"
    return None


def stream_select_vs_spec(ctx, hj, n, name="python-vs-spec"):
    """the PROPERTY on the real functions: result must be what the Lean spec (specRemoved) allows"""
    ctx.stream_rule(
        name,
        "same generator; the real Python selection function's (size_over, rm_files) is compared with the Lean SPEC "
        "(drop oldest until the rest fits) evaluated by the driver; a difference on a well-formed input "
        "(limit>=0, sorted, non-negative counts) is a property failure",
    )
    for _ in range(n):
        files = gen_files(ctx.rng)
        now = 50
        for unit in UNITS:
            for hsize in boundary_limits(unit, files, now, ctx.rng):
                impl = impl_select(hj, unit, hsize, files, now)
                spec = ctx.driver.call("c14.select", Sym(unit), hsize, now, files)
                nontriv = bool(files) and (0 < len(impl[1]) < len(files) or hsize in (0, 1))
                ctx.case(name, (unit, hsize, tuple(files)), nontriv)
                ctx.count(f"select/{unit}/removed={'none' if not impl[1] else ('all' if len(impl[1]) == len(files) else 'some')}")
                if impl != spec:
                    def bad(fs, unit=unit, hsize=hsize, now=now):
                        return impl_select(hj, unit, hsize, fs, now) != ctx.driver.call("c14.select", Sym(unit), hsize, now, fs)

                    files = common.shrink_list([list(f) for f in files], bad)
                    impl = impl_select(hj, unit, hsize, files, now)
                    spec = ctx.driver.call("c14.select", Sym(unit), hsize, now, files)
                    case = {"stream": name, "unit": unit, "hsize": hsize, "now": now, "files": files}
                    ctx.spec_failure(
                        case,
                        {"python": impl, "spec": spec},
                        f"{PYFN[unit]}({hsize}, files) does not keep the largest fitting set of newest files",
                        classify(case),
                    )


def _write_hist(hj, path, ncmds, ts0, ts1, locked):
    import xonsh.lib.lazyjson as xlj

    cmds = [{"inp": f"cmd{i}", "rtn": 0, "ts": [ts0, ts0 + 0.5]} for i in range(ncmds)]
    with open(path, "w", newline="\n", encoding="utf-8") as fp:
        xlj.ljdump({"cmds": cmds, "ts": [ts0, ts1], "locked": locked, "sessionid": "s"}, fp, sort_keys=True)


def e2e_case(ctx, hj, rng, unit, force, case=None):
    """one end-to-end GC pass of the real JsonHistoryGC thread over a scratch data dir"""
    from xonsh.built_ins import XSH
    from xonsh.environ import Env

    root = common.scratch_root() / f"gc-{uuid.uuid4().hex[:8]}"
    hdir = root / "history_json"
    hdir.mkdir(parents=True)
    base = int(time.time()) - 100000
    try:
        XSH.env = Env(XONSH_DATA_DIR=str(root), XONSH_DEBUG=0)
        XSH.history = None
        hj.uptime.boottime = lambda: base - 5000  # boot time is an environment parameter
        n = rng.randint(0, 7)
        entries = []  # (path, kind, ts, ncmds, locked)
        for i in range(n):
            kind = rng.choice(["ok"] * 6 + ["locked", "locked", "corrupt", "empty"])
            p = str(hdir / f"xonsh-{uuid.UUID(int=rng.getrandbits(128))}.json")
            age_slot = rng.randint(0, 20)  # slots are 1000 s apart: no timing races
            ts1 = float(base + 1000 * age_slot)
            nc = rng.choice([0, 1, 1, 2, 3, 5])
            if kind == "corrupt":
                with open(p, "w") as fp:
                    fp.write('{"cmds": [1, 2,')
            elif kind == "empty":
                open(p, "w").close()
                os.utime(p, (ts1, ts1))
                nc = 0
            else:
                _write_hist(hj, p, nc, ts1 - 10.0, ts1, kind == "locked")
            entries.append((p, kind, ts1, nc))
        # candidates exactly as the data dir presents them (oldest first by the code's own tuple sort)
        listed = []
        for p, kind, ts1, nc in entries:
            if kind == "corrupt":
                continue
            listed.append(((ts1, nc, p, os.path.getsize(p)), kind == "locked"))
        listed.sort(key=lambda x: x[0])
        now = int(time.time())
        cands = [f for f, l in listed if not l]
        tot = {
            "commands": sum(f[1] for f in cands),
            "files": len(cands),
            "b": sum(f[3] for f in cands),
            "s": 0,
        }[unit]
        if unit == "s":
            hsize = (now - base) - 1000 * rng.randint(0, 21) + 500  # mid-slot: >= 400 s from any file age
            if hsize < 0:
                hsize = 0
        else:
            hsize = rng.choice([0, 1, max(tot - 1, 0), tot, tot + 1, tot // 2, rng.randint(0, tot + 2)])
        before = sorted(os.listdir(hdir))
        gc = hj.JsonHistoryGC(wait_for_shell=False, size=(hsize, unit), force=force)
        gc.join(60)
        if gc.is_alive():
            raise common.InfraError("GC thread did not finish in 60 s")
        after = sorted(os.listdir(hdir))
        deleted = sorted(set(before) - set(after))
        ids = {f[2]: i for i, (f, l) in enumerate(listed)}
        model_all = [[[int(f[0]), f[1], ids[f[2]], f[3]], l] for f, l in listed]
        spec = ctx.driver.call("c14.run", Sym(unit), force, hsize, now, model_all)
        spec_deleted = sorted(os.path.basename(listed[f[2]][0][2]) for f in spec)
        desc = {
            "stream": "end-to-end",
            "unit": unit,
            "force": force,
            "hsize": hsize,
            "files": [
                {"name": os.path.basename(p)[:14], "kind": k, "age_slot": int((ts1 - base) // 1000), "ncmds": nc}
                for p, k, ts1, nc in entries
            ],
        }
        return desc, deleted, spec_deleted, [k for _, k, _, _ in entries]
    finally:
        shutil.rmtree(root, ignore_errors=True)


def stream_e2e(ctx, hj, n, name="end-to-end"):
    ctx.stream_rule(
        name,
        "real JsonHistoryGC thread over a scratch data dir with 0-7 history files (ok / locked / corrupt / zero-byte, "
        "0-5 commands, ages in 1000 s slots), every unit, forced and unforced, limits at 0,1,total-1,total,total+1; "
        "the set of files deleted from disk is compared with the Lean specRun; non-trivial = some but not all candidates deleted, "
        "or a locked/corrupt/empty member present",
    )
    import contextlib
    import io

    for i in range(n):
        unit = UNITS[i % 4]
        force = ctx.rng.random() < 0.5
        with contextlib.redirect_stdout(io.StringIO()):
            desc, deleted, spec_deleted, kinds = e2e_case(ctx, hj, ctx.rng, unit, force)
        nontriv = (0 < len(deleted)) or any(k != "ok" for k in kinds)
        ctx.case(name, repr(desc), nontriv, desc | {"deleted": len(deleted)})
        ctx.count(f"e2e/{unit}/{'forced' if force else 'unforced'}/deleted={'0' if not deleted else 'some'}")
        for k in kinds:
            ctx.count(f"e2e/member/{k}")
        if deleted != spec_deleted:
            ctx.spec_failure(
                desc,
                {"deleted_on_disk": [d[:14] for d in deleted], "spec_deleted": [d[:14] for d in spec_deleted]},
                "JsonHistoryGC deleted a different set of files than the property allows",
                classify(desc),
            )


def live_session_case(ctx, hj, rng, script=None):
    """a LIVE session (real JsonHistory object) appends / flushes / clears / deletes mid-session while a
    forced GC with a tiny limit runs 'from another session': the live session's file must survive"""
    from xonsh.built_ins import XSH
    from xonsh.environ import Env

    root = common.scratch_root() / f"live-{uuid.uuid4().hex[:8]}"
    hdir = root / "history_json"
    hdir.mkdir(parents=True)
    base = int(time.time()) - 100000
    try:
        XSH.env = Env(XONSH_DATA_DIR=str(root), XONSH_DEBUG=0, HISTCONTROL="", XONSH_STORE_STDOUT=False)
        XSH.history = None
        hj.uptime.boottime = lambda: base - 5000
        # a few closed sessions, some NEWER than the live session's start (the live one looks old to GC)
        nclosed = rng.randint(1, 4)
        for i in range(nclosed):
            p = str(hdir / f"xonsh-{uuid.UUID(int=rng.getrandbits(128))}.json")
            t = float(base + 1000 * rng.randint(1, 30))
            _write_hist(hj, p, rng.choice([1, 2, 3]), t - 10.0, t, False)
        start = float(base + 1000 * rng.randint(0, 10))
        hist = hj.JsonHistory(sessionid=uuid.UUID(int=rng.getrandbits(128)), buffersize=rng.choice([1, 2, 3, 50]), gc=False,
                              ts=[start, None], locked=True, env={})
        live = hist.filename
        if script is None:
            script = [rng.choice(["append", "append", "append", "flush", "clear", "delete", "gc", "vanish"]) for _ in range(rng.randint(2, 8))] + ["gc"]
            if "vanish" in script and rng.random() < 0.7:
                # the file of the live session disappears (cleaned by hand, tmp reaper); the next flush recreates it — still locked
                script += ["append", "flush", "gc"]
        lost = None
        n = 0
        for op in script:
            if op == "append":
                n += 1
                hf = hist.append({"inp": f"live-cmd-{n}", "rtn": 0, "ts": [start + n, start + n + 0.5], "out": None, "cwd": "/"})
                if hf is not None:
                    hf.join(30)
            elif op == "flush":
                hf = hist.flush()
                if hf is not None:
                    hf.join(30)
            elif op == "clear":
                hist.clear()
            elif op == "delete":
                try:
                    hist.delete("live-cmd-1$")
                except Exception as e:  # noqa: BLE001
                    lost = f"history delete raised {type(e).__name__}: {e}"
                    break
            elif op == "vanish":
                with contextlib.suppress(OSError):
                    os.unlink(live)
            elif op == "gc":
                had = os.path.exists(live)
                unit = rng.choice(["files", "commands", "b"])
                gc = hj.JsonHistoryGC(wait_for_shell=False, size=(rng.choice([0, 1]), unit), force=True)
                gc.join(60)
                if gc.is_alive():
                    raise common.InfraError("GC thread did not finish in 60 s")
                if had and not os.path.exists(live):
                    lost = f"after {script[: script.index(op) + 1] if op in script else script}: GC (forced, limit <= 1 {unit}) deleted the file of the live session"
                    break
        return script, lost
    finally:
        XSH.history = None
        shutil.rmtree(root, ignore_errors=True)


def stream_live(ctx, hj, n, name="live-session"):
    ctx.stream_rule(
        name,
        "a real JsonHistory session (locked=True) appends, flushes mid-session (buffer sizes 1-50), clears and deletes from its "
        "history — and its file may vanish and be recreated by the next flush — while forced GC passes with limit 0/1 (files/commands/bytes) run as from another session, next to 1-4 closed "
        "session files some of which are newer; the live session's file must never be deleted; non-trivial = script with a "
        "mid-session flush/clear/delete before a GC pass",
    )
    import contextlib
    import io

    for i in range(n):
        if ctx.enough_failures():
            break
        with contextlib.redirect_stdout(io.StringIO()), contextlib.redirect_stderr(io.StringIO()):
            script, lost = live_session_case(ctx, hj, ctx.rng)
        nontriv = any(o in script[:-1] for o in ("flush", "clear", "delete", "vanish"))
        ctx.case(name, tuple(script) + (i,), nontriv, {"script": script})
        for o in script:
            ctx.count(f"live/{o}")
        if lost:
            key = "clear-unlocks-live-session" if "clear" in script else None
            ctx.spec_failure({"stream": name, "script": script}, {"what": lost}, "GC deleted the history file of a live (locked) session", key)


def sqlite_case(ctx, rng, n_keep, rows):
    common.setup_repo_imports()
    import xonsh.history.sqlite as hs

    root = common.scratch_root() / f"sq-{uuid.uuid4().hex[:8]}"
    root.mkdir(parents=True)
    fn = str(root / "h.sqlite")
    try:
        # the "table already created" flag is a per-thread session cache; every scratch file is a new session
        setattr(hs.XH_SQLITE_CACHE, hs.XH_SQLITE_CREATED_SQL_TBL, False)
        with hs._xh_sqlite_get_conn(filename=fn) as conn:
            c = conn.cursor()
            hs._xh_sqlite_create_history_table(c)
            for i, tsb in enumerate(rows):
                hs._xh_sqlite_insert_command(
                    # (END times in an order of their own: long-running and overlapping commands; "newest" is by START time)
                    c, {"inp": f"c{i}", "rtn": 0, "ts": (float(tsb), float(tsb) + 0.5 + rng.choice([0, 0, 3, 40, 400])), "out": None, "cwd": "/"}, "sess", False
                )
            conn.commit()
        gc = hs.SqliteHistoryGC(wait_for_shell=False, size=(n_keep, "commands"), filename=fn)
        gc.join(60)
        if gc.is_alive():
            raise common.InfraError("SqliteHistoryGC did not finish in 60 s")
        conn = sqlite3.connect(fn)
        kept = sorted(int(r[0]) for r in conn.execute("SELECT tsb FROM xonsh_history"))
        conn.close()
        return kept
    finally:
        shutil.rmtree(root, ignore_errors=True)


def stream_sqlite(ctx, n, name="sqlite-keep-newest"):
    ctx.stream_rule(
        name,
        "real SQLite backend: table of 0-12 rows with random (tie-prone) tsb, xh_sqlite_delete_items(N) for N in "
        "{0,1,len-1,len,len+1,random}; surviving tsb multiset compared with the Lean model sqlKept and with the "
        "property (the newest N survive; with ties at the threshold, at least N); non-trivial = 0 < N < len",
    )
    for i in range(n):
        m = ctx.rng.randint(0, 12)
        rows = [ctx.rng.randint(0, 15) for _ in range(m)]
        for n_keep in sorted({0, 1, max(m - 1, 0), m, m + 1, ctx.rng.randint(0, m + 1)}):
            kept = sqlite_case(ctx, ctx.rng, n_keep, rows)
            model = sorted(ctx.driver.call("c14.sql", n_keep, rows))
            ctx.case(name, (n_keep, tuple(rows)), 0 < n_keep < m, {"N": n_keep, "rows": rows, "kept": kept})
            ctx.count(f"sqlite/N={'0' if n_keep == 0 else ('<len' if n_keep < m else '>=len')}")
            case = {"stream": name, "N": n_keep, "rows": rows}
            if kept != model:
                ctx.disagree(name, case, kept, model)
            # the property itself: kept is a sub-multiset, everything deleted is older than everything kept,
            # at least min(N, len) rows survive and — when tsb are distinct — exactly that many
            srt = sorted(rows, reverse=True)
            want_min = min(n_keep, m)
            deleted = list(rows)
            for k in kept:
                deleted.remove(k)
            ok = len(kept) >= want_min and all(d < k for d in deleted for k in kept)
            if len(set(rows)) == len(rows):
                ok = ok and sorted(kept) == sorted(srt[:want_min])
            if not ok:
                ctx.spec_failure(
                    case,
                    {"kept": kept, "newest_N": sorted(srt[:want_min])},
                    "SQLite GC did not keep the newest N commands",
                    "sqlite-keep-zero" if n_keep == 0 else None,
                )


def replay_known(ctx, hj):
    """witnesses of known_findings.json first: an open one is expected to fail, a fixed one must pass"""
    for f in ctx.known:
        w = f["witness"]
        if "script" in w:
            import contextlib
            import io

            fails, obs = False, None
            for _ in range(3):  # the GC unit/limit inside the script are drawn at random: try a few
                with contextlib.redirect_stdout(io.StringIO()), contextlib.redirect_stderr(io.StringIO()):
                    _, lost = live_session_case(ctx, hj, ctx.rng, script=list(w["script"]))
                if lost:
                    fails, obs = True, {"what": lost}
                    break
            case = {"stream": "live-session", "script": w["script"]}
        elif "rows" in w:
            kept = sqlite_case(ctx, ctx.rng, w["N"], w["rows"])
            fails = len(kept) != min(w["N"], len(w["rows"]))
            case = {"stream": "sqlite-keep-newest", "N": w["N"], "rows": w["rows"]}
            obs = {"kept": kept}
        else:
            impl = impl_select(hj, w["unit"], w["hsize"], w["files"], w["now"])
            spec = ctx.driver.call("c14.select", Sym(w["unit"]), w["hsize"], w["now"], w["files"])
            fails = impl != spec
            case = dict(w, stream="python-vs-spec")
            obs = {"python": impl, "spec": spec}
        ctx.replayed(f["key"], fails, obs)
        if fails:
            ctx.spec_failure(case, obs, f["what"], f["key"])


# ------------------------------------------------------------------ entry points
def run(ctx):
    hj = _hj()
    ctx.assumptions += [
        "timestamps are modelled as integers (the code uses floats); ties in timestamps are ordered by Python's tuple sort",
        "boot time (uptime.boottime) is an environment parameter set by the harness",
        "SQLite executes the two SQL statements of _xh_sqlite_delete_records as documented (SQLite itself is not modelled)",
    ]
    ctx.explanation = (
        "The four selection functions, the refuse guard, the lock filter and the dispatch table are TRANSLATED from "
        "/repo on every run (Gen/HistGc.lean); Props/C14.lean proves each equals the spec `drop oldest until the rest "
        "fits` for all lists and limits, and derives every clause (oldest-first, fits, maximal, no-op, locked-never, refuse). "
        "SQLite keep-newest-N is a hand model tied by correspondence."
    )
    replay_known(ctx, hj)
    stream_translated(ctx, hj, ctx.n(60, 600))
    stream_select_vs_spec(ctx, hj, ctx.n(150, 3000))
    stream_e2e(ctx, hj, ctx.n(48, 600))
    stream_live(ctx, hj, ctx.n(60, 800))
    stream_sqlite(ctx, ctx.n(25, 400))


def search(ctx, reason):
    """obligation/correspondence broken: look harder for an input on which the real code violates the spec"""
    hj = _hj()
    ctx.extra["search_reason"] = reason
    stream_select_vs_spec(ctx, hj, ctx.n(1500, 6000), name="search:python-vs-spec")
    if not [f for f in ctx.spec_failures if f["key"] is None]:
        stream_e2e(ctx, hj, ctx.n(200, 1000), name="search:end-to-end")


def replay(ctx, path):
    import json

    hj = _hj()
    r = json.loads(open(path).read())
    c = r["case"]
    if c.get("stream", "").endswith("python-vs-spec"):
        impl = impl_select(hj, c["unit"], c["hsize"], c["files"], c["now"])
        spec = ctx.driver.call("c14.select", Sym(c["unit"]), c["hsize"], c["now"], c["files"])
        print("python:", impl)
        print("spec  :", spec)
        ok = impl == spec
    elif c.get("stream") == "sqlite-keep-newest":
        kept = sqlite_case(ctx, ctx.rng, c["N"], c["rows"])
        print("kept:", kept, "newest N:", sorted(sorted(c["rows"], reverse=True)[: c["N"]]))
        ok = len(kept) >= min(c["N"], len(c["rows"]))
    else:
        print("replay of end-to-end cases: re-run ./check C14 with the same seed")
        return common.EXIT_INFRA
    print("property holds on this input" if ok else f"VIOLATION property={ID} replay={path}")
    return common.EXIT_OK if ok else common.EXIT_VIOLATION
