"""C08 — Command lookup equals a POSIX $PATH search and never goes stale."""

from __future__ import annotations

import json
import os
import shutil
import subprocess
import uuid

from .. import common
from ..codec import Sym

ID = "C08"
LEVEL = "proof"
PROPS_MODULES = ["XonshVerif.Props.C08"]
TECHNIQUE = "Lean 4 proof (list lemmas: dedup/realpath/isdir filtering is irrelevant to the first hit; cache-consistency invariant over histories) + differential correspondence over scratch file-system layouts and histories, cross-checked with /bin/sh `command -v`"
LEVEL_TEXT = (
    "proof (partial for the cache): locate_file_in_path_env is modelled and proved equal to the POSIX walk of $PATH in its own order "
    "for ALL path lists and file-system oracles (duplicates, symlinked, missing entries): realpath + first-occurrence dedup + isdir "
    "filtering never change the first hit (C08_locate_is_posix). The commands cache is modelled as a machine (per-directory mtime "
    "cache, command table built back to front, $PATH list tracked) and proved to agree with the file system after every lookup for "
    "all histories of create / delete / $PATH edits in which directory mtimes change with their content (C08_cache_partial); "
    "the unrestricted statement is false: a mode change does not touch the directory mtime (C08_cex_chmod, known finding). "
    "Tie: random scratch layouts (non-executable shadows, directories and dangling links named like commands, duplicate / symlinked / "
    "relative / empty / missing $PATH entries, explicit paths incl. link/../cmd) and histories against the real functions, the spec "
    "validated against /bin/sh `command -v` and shutil.which."
)
LEVEL_NOTE = (
    "Trusted: Lean kernel + standard axioms; harness; the OS (directory mtime changes on create/delete; realpath); aliases are "
    "outside this property (C15). $XONSH_COMMANDS_CACHE_READ_DIR_ONCE is a documented trade-off: with it set only soundness "
    "(never returns something that is not an executable regular file) is demanded and checked."
)

NAMES = ["cmd0", "cmd1", "cmd2", "tool", "x"]


class Layout:
    def __init__(self, rng):
        self.root = str(common.scratch_root() / f"c08-{uuid.uuid4().hex[:8]}")
        os.makedirs(self.root)
        self.rng = rng
        self.dirs = {}
        for i in range(5):
            d = os.path.join(self.root, f"d{i}")
            os.mkdir(d)
            self.dirs[f"d{i}"] = d
        # symlinked dir, missing dir, a file where a dir is expected
        os.symlink(self.dirs["d1"], os.path.join(self.root, "l1"))
        self.dirs["l1"] = os.path.join(self.root, "l1")
        self.dirs["missing"] = os.path.join(self.root, "missing")
        open(os.path.join(self.root, "afile"), "w").close()
        self.dirs["afile"] = os.path.join(self.root, "afile")
        self.cwd = os.path.join(self.root, "cwd")
        os.mkdir(self.cwd)
        for i in range(5):
            d = self.dirs[f"d{i}"]
            for n in NAMES:
                k = rng.random()
                p = os.path.join(d, n)
                if k < 0.30:
                    self.mkexec(p)
                elif k < 0.42:
                    open(p, "w").close()  # non-executable shadow
                elif k < 0.50:
                    os.mkdir(p)  # a directory named like the command
                elif k < 0.56:
                    os.symlink(os.path.join(d, "nowhere"), p)  # dangling link
                elif k < 0.62:
                    tgt = os.path.join(self.root, f"t-{uuid.uuid4().hex[:5]}")
                    self.mkexec(tgt)
                    os.symlink(tgt, p)  # link to an executable
        # an executable that exists ONLY in the current directory
        self.mkexec(os.path.join(self.cwd, "onlyhere"))
        os.mkdir(os.path.join(self.cwd, "sub"))
        self.mkexec(os.path.join(self.cwd, "sub", "inner"))
        os.symlink(self.dirs["d2"], os.path.join(self.cwd, "lnk"))
        self.mkexec(os.path.join(self.cwd, "decoy"))
        # `lnk/..` is the PARENT OF THE LINK'S TARGET (the root), not the current directory: a different `decoy`, and a file that
        # exists only there
        self.mkexec(os.path.join(self.root, "decoy"))
        self.mkexec(os.path.join(self.root, "upper"))
        os.symlink(os.path.join(self.dirs["d3"]), os.path.join(self.cwd, "sub", "deep"))

    @staticmethod
    def mkexec(p):
        with open(p, "w") as f:
            f.write("#!/bin/sh\necho $0\n")
        os.chmod(p, 0o755)

    def random_path(self):
        keys = list(self.dirs)
        n = self.rng.randint(0, 7)
        out = []
        for _ in range(n):
            k = self.rng.choice(keys)
            p = self.dirs[k]
            r = self.rng.random()
            if r < 0.1:
                p = os.path.relpath(p, self.cwd)  # a relative entry
            elif r < 0.15:
                p = p + "/"
            elif r < 0.2:
                p = ""
            out.append(p)
        return out

    def close(self):
        shutil.rmtree(self.root, ignore_errors=True)


def oracle_tables(paths, cwd):
    """the file-system oracle, computed with the os module only"""
    ids = {p: i for i, p in enumerate(dict.fromkeys(paths))}
    rp, dirs, ex = [], [], []
    allp = dict(ids)
    for p in list(ids):
        r = os.path.realpath(os.path.join(cwd, p) if not os.path.isabs(p) else p)
        if r not in allp:
            allp[r] = len(allp)
        rp.append([ids[p], allp[r]])
    for p, i in allp.items():
        full = os.path.join(cwd, p) if not os.path.isabs(p) else p
        if os.path.isdir(full):
            dirs.append(i)
        for k, n in enumerate(NAMES + ["onlyhere"]):
            f = os.path.join(full, n)
            if os.path.isfile(f) and os.access(f, os.X_OK):
                ex.append([i, k])
    return ids, allp, rp, dirs, ex


def stream_layouts(ctx, n, name="layouts"):
    ctx.stream_rule(
        name,
        "random scratch trees (5 directories x 5 names: executable / non-executable shadow / directory / dangling link / link to an "
        "executable; a symlinked, a missing and a non-directory $PATH entry) and random $PATH lists of 0-7 entries with duplicates, "
        "relative, empty and trailing-slash entries; locate_executable for every name (and a name that exists only in the current "
        "directory) is compared with the Lean `locate` AND the Lean POSIX spec evaluated on an os-module oracle of the same tree, and "
        "the spec itself with /bin/sh `command -v`; explicit paths (./x, sub/x, absolute, link/../x, missing) must resolve to exactly "
        "that file; non-trivial = a shadow/duplicate/symlink precedes the hit",
    )
    common.setup_repo_imports()
    from xonsh.built_ins import XSH
    from xonsh.environ import Env
    from xonsh.procs.executables import locate_executable

    here = os.getcwd()
    for k in range(n):
        if ctx.enough_failures():
            break
        lay = Layout(ctx.rng)
        try:
            os.chdir(lay.cwd)
            paths = lay.random_path()
            XSH.env = Env(PATH=list(paths), HOME=lay.root, XONSH_COMMANDS_CACHE_READ_DIR_ONCE=[])
            ids, allp, rp, dirs, ex = oracle_tables(paths, lay.cwd)
            rev = {i: p for p, i in allp.items()}
            for j, nm in enumerate(NAMES + ["onlyhere"]):
                got = locate_executable(nm)
                m_loc, m_spec = ctx.driver.call("c08.locate", [ids[p] for p in paths], rp, dirs, ex, j)
                want = None if m_spec is None else os.path.join(os.path.join(lay.cwd, rev[m_spec[1]]) if not os.path.isabs(rev[m_spec[1]]) else rev[m_spec[1]], nm)
                m_path = None if m_loc is None else os.path.join(os.path.join(lay.cwd, rev[m_loc[1]]) if not os.path.isabs(rev[m_loc[1]]) else rev[m_loc[1]], nm)
                case = {"stream": name, "PATH": [os.path.relpath(p, lay.root) if os.path.isabs(p) else p for p in paths], "name": nm}
                nontriv = want is not None and paths.index([p for p in paths if ids[p] in [a for a, b in rp if b == m_spec[1]]][0]) > 0 if want else False
                ctx.case(name, (k, nm), bool(nontriv), case | {"found": None if got is None else os.path.relpath(got, lay.root)})
                same = (got is None and want is None) or (got is not None and want is not None and os.path.realpath(got) == os.path.realpath(want))
                if (got is None) != (m_path is None) or (got is not None and os.path.realpath(got) != os.path.realpath(m_path)):
                    ctx.disagree(name, case, got, m_path)
                if not same:
                    ctx.spec_failure(case, {"xonsh": got, "posix_first": want}, "a bare command name does not resolve to the first executable regular file along $PATH", None)
                if k % 5 == 0 and "" not in paths and paths:
                    sh = subprocess.run(["/bin/sh", "-c", f"command -v {nm}"], env={"PATH": ":".join(paths)}, cwd=lay.cwd, capture_output=True, text=True).stdout.strip() or None
                    if sh is not None and not os.path.isabs(sh):
                        sh = os.path.join(lay.cwd, sh)
                    if (sh is None) != (want is None) or (sh and os.path.realpath(sh) != os.path.realpath(want)):
                        ctx.lean_notes.append(f"spec vs /bin/sh differ for {case}: sh={sh} spec={want}")
                        ctx.count("spec-vs-sh-differs")
                    else:
                        ctx.count("spec-vs-sh-agrees")
            # explicit paths: only that path
            for expl in ["./onlyhere", "sub/inner", os.path.join(lay.cwd, "decoy"), "lnk/../decoy", "lnk/../cmd0", "./missing", "sub/onlyhere", "../cwd/decoy",
                         "lnk/../upper", "./lnk/../upper", os.path.join(lay.cwd, "lnk", "..", "decoy"), "sub/deep/../upper", "sub/deep/../decoy",
                         "sub/../decoy", "./sub/../sub/inner"]:
                got = locate_executable(expl)
                exists = os.path.isfile(expl) and os.access(expl, os.X_OK)
                ok = (got is None and not exists) or (got is not None and exists and os.path.exists(got) and os.path.samefile(got, expl))
                ctx.case(name, (k, expl), True)
                if not ok:
                    ctx.spec_failure({"stream": name, "explicit_path": expl}, {"xonsh": got, "kernel_resolves_to": os.path.realpath(expl) if exists else None},
                                     "a name containing a path separator does not refer to exactly that path", None)
        finally:
            os.chdir(here)
            lay.close()


def stream_read_once(ctx, n, name="read-dir-once-soundness"):
    ctx.stream_rule(
        name,
        "$XONSH_COMMANDS_CACHE_READ_DIR_ONCE set to the scratch root: lookups interleaved with chmod -x / create; whatever is returned "
        "must be an executable regular file at this moment (the listing may be stale by design: only soundness is demanded); "
        "non-trivial = a lookup after a chmod -x of the previously returned file",
    )
    common.setup_repo_imports()
    import xonsh.procs.executables as ex
    from xonsh.built_ins import XSH
    from xonsh.environ import Env

    for k in range(n):
        lay = Layout(ctx.rng)
        try:
            paths = [lay.dirs[f"d{i}"] for i in ctx.rng.sample(range(5), 3)]
            XSH.env = Env(PATH=list(paths), HOME=lay.root, XONSH_COMMANDS_CACHE_READ_DIR_ONCE=[lay.root])
            ex._stable_dir_cache.clear()
            ex._stable_dir_reported.clear()
            for step in range(6):
                nm = ctx.rng.choice(NAMES)
                got = ex.locate_executable(nm)
                ctx.case(name, (k, step, nm), step > 0)
                if got is not None and not (os.path.isfile(got) and os.access(got, os.X_OK)):
                    ctx.spec_failure({"stream": name, "name": nm, "step": step}, {"returned": os.path.relpath(got, lay.root)},
                                     "lookup returned something that is not an executable regular file", None)
                    break
                if got is not None and ctx.rng.random() < 0.7:
                    os.chmod(got, 0o644) if not os.path.islink(got) else None
            ex._stable_dir_cache.clear()
        finally:
            XSH.env["XONSH_COMMANDS_CACHE_READ_DIR_ONCE"] = []
            lay.close()


# ------------------------------------------------------------------ the commands cache
def gen_cache_history(rng, length):
    ops = []
    for _ in range(length):
        r = rng.random()
        d, n = rng.randrange(4), rng.randrange(4)
        if r < 0.40:
            ops.append([Sym("lookup"), n])
        elif r < 0.58:
            ops.append([Sym("create"), d, n])
        elif r < 0.70:
            ops.append([Sym("delete"), d, n])
        elif r < 0.78:
            ops.append([Sym("chmodOff"), d, n])
        elif r < 0.93:
            p = rng.sample(range(4), rng.randint(0, 4))
            ops.append([Sym("setPath"), p])
        else:
            ops.append([Sym("setMtime"), d, rng.choice([0, 1, 2, 3])])
            if rng.random() < 0.5:
                # the shape of `mv bin bin.old && mv bin.new bin` / untar: content changes and the mtime ends up OLDER
                ops[-1:] = [[Sym("lookup"), n], [Sym("create" if rng.random() < 0.5 else "delete"), d, n], ops[-1], [Sym("lookup"), n]]
    ops.append([Sym("lookup"), rng.randrange(4)])
    return ops


def run_cache_impl(ops, path0, execs0):
    common.setup_repo_imports()
    from xonsh.built_ins import XSH
    from xonsh.commands_cache import CommandsCache
    from xonsh.environ import Env

    root = str(common.scratch_root() / f"c08c-{uuid.uuid4().hex[:8]}")
    os.makedirs(root)
    D = [os.path.join(root, f"d{i}") for i in range(4)]
    clock = {d: 1_600_000_000 for d in D}

    def settime(d, bump=True):
        if bump:
            clock[d] += 1
        os.utime(d, (clock[d], clock[d]))

    for i, d in enumerate(D):
        os.mkdir(d)
    for d, ns in execs0:
        for nn in ns:
            Layout.mkexec(os.path.join(D[d], f"c{nn}"))
    for d in D:
        settime(d, bump=False)
    env = XSH.env = Env(PATH=[D[i] for i in path0], HOME=root, XONSH_COMMANDS_CACHE_READ_DIR_ONCE=[], ENABLE_COMMANDS_CACHE=True, XONSH_DATA_DIR=root,
                        COMMANDS_CACHE_SAVE_INTERMEDIATE=False)
    cc = XSH.commands_cache = CommandsCache(env)
    out = []
    try:
        for op in ops:
            name = str(op[0])
            if name == "lookup":
                nm = f"c{op[1]}"
                loc = cc.locate_binary(nm)
                isin = nm in cc
                listed = nm in set(cc)
                out.append({"locate": None if loc is None else D.index(os.path.dirname(loc)), "in": isin, "listed": listed})
                continue
            out.append(None)
            if name == "create":
                p = os.path.join(D[op[1]], f"c{op[2]}")
                if not os.path.exists(p):
                    Layout.mkexec(p)
                    settime(D[op[1]])
                elif not os.access(p, os.X_OK):
                    pass  # exists without x bit (chmodOff earlier): the model treats it as absent; leave it
            elif name == "delete":
                p = os.path.join(D[op[1]], f"c{op[2]}")
                if os.path.exists(p) and os.access(p, os.X_OK):
                    os.unlink(p)
                    settime(D[op[1]])
            elif name == "chmodOff":
                p = os.path.join(D[op[1]], f"c{op[2]}")
                if os.path.exists(p):
                    st = os.stat(D[op[1]])
                    os.unlink(p)  # (so that a later `create` of the same name behaves like the model's)
                    os.utime(D[op[1]], ns=(st.st_atime_ns, st.st_mtime_ns))  # the directory's mtime does not move
            elif name == "setPath":
                env["PATH"] = [D[i] for i in op[1]]
            elif name == "setMtime":
                clock[D[op[1]]] = 1_600_000_000 + op[2]
                os.utime(D[op[1]], (clock[D[op[1]]], clock[D[op[1]]]))
    finally:
        shutil.rmtree(root, ignore_errors=True)
    return out


def gen_backwards_history(rng, path0):
    """directed: the directory's content changes between two lookups and its mtime ends up at a value that is OLDER than, but
    different from, the one the cache recorded (mv bin bin.old && mv bin.new bin; tar x; rsync -t; a clock step)"""
    d = rng.choice(path0)
    n = rng.randrange(4)
    ops = []
    for _ in range(rng.randint(2, 5)):  # move the clock of d forward first
        ops.append([Sym("create"), d, rng.randrange(4)])
        ops.append([Sym("delete"), d, rng.randrange(4)])
    ops.append([Sym("lookup"), n])
    ops.append([Sym(rng.choice(["create", "delete"])), d, n])
    ops.append([Sym("setMtime"), d, rng.choice([0, 1, 2])])
    ops.append([Sym("lookup"), n])
    for _ in range(rng.randint(0, 3)):
        ops.append([Sym("lookup"), rng.randrange(4)])
    return ops


def stream_cache(ctx, n, length, name="cache-histories"):
    ctx.stream_rule(
        name,
        f"random histories of {length} ops on a real CommandsCache over 4 scratch directories and 4 names: lookups (locate_binary, "
        "`in`, iteration) interleaved with executables appearing / disappearing (directory mtime moves), losing their x bit (mtime "
        "does not move), $PATH reordered / shortened / emptied, directory mtimes set backwards; every lookup is compared with the Lean "
        "cache machine and with the file system (first $PATH directory that holds the executable now); non-trivial = a lookup after a "
        "$PATH edit or file change that followed an earlier lookup",
    )
    for k in range(n):
        if ctx.enough_failures():
            break
        path0 = ctx.rng.sample(range(4), ctx.rng.randint(1, 4))
        execs0 = [[d, ctx.rng.sample(range(4), ctx.rng.randint(0, 3))] for d in range(4)]
        ops = gen_backwards_history(ctx.rng, path0) if k % 5 == 4 else gen_cache_history(ctx.rng, length)
        model = ctx.driver.call("c08.cache", False, path0, execs0, ops)
        impl = run_cache_impl(ops, path0, execs0)
        seen_lookup = changed = nontriv = False
        for op in ops:
            ctx.count(f"op/{op[0]}")
            if str(op[0]) == "lookup":
                nontriv = nontriv or (seen_lookup and changed)
                seen_lookup = True
            elif seen_lookup:
                changed = True
        ctx.case(name, repr((path0, execs0, ops)), nontriv, {"PATH": path0, "ops": fmt(ops[:10])})
        case = {"stream": name, "PATH": path0, "executables": execs0, "ops": fmt(ops)}
        for i, (op, m, im) in enumerate(zip(ops, model, impl)):
            if str(op[0]) != "lookup":
                continue
            m_cache = None if m[0] is None else m[0][1]
            m_world = None if m[1] is None else m[1][1]
            if im["locate"] != m_cache:
                ctx.disagree(name, case | {"upto": i}, im, {"cache": m_cache, "file_system": m_world})
            views = {im["locate"] is not None, im["in"], im["listed"]}
            stale = im["locate"] != m_world or len(views) > 1
            if stale:
                # the known finding is exactly what the (faithful, mtime-keyed) cache machine predicts after a mode change or
                # an mtime reset: anything the machine does not predict is a different failure
                chm = any(str(o[0]) in ("chmodOff", "setMtime") for o in ops[:i])
                key = "cache-ignores-mode-changes-and-mtime-resets" if chm and im["locate"] == m_cache and len(views) == 1 else None
                ctx.spec_failure(case | {"upto": i}, {"cache_says": im, "file_system_says": m_world},
                                 "a commands-cache view (locate_binary / in / listing) disagrees with the file system", key)
                if key is None:
                    break


def fmt(x):
    if isinstance(x, Sym):
        return str(x)
    if isinstance(x, (list, tuple)):
        return [fmt(y) for y in x]
    return x


def unfmt(x):
    if isinstance(x, str):
        return Sym(x)
    if isinstance(x, list):
        return [unfmt(y) for y in x]
    return x


def replay_known(ctx):
    for f in ctx.known:
        w = f["witness"]
        ops = unfmt(w["ops"])
        model = ctx.driver.call("c08.cache", False, w["PATH"], w["executables"], ops)
        impl = run_cache_impl(ops, w["PATH"], w["executables"])
        m_world = None if model[-1][1] is None else model[-1][1][1]
        fails = impl[-1]["locate"] != m_world
        ctx.replayed(f["key"], fails, {"cache_says": impl[-1], "file_system_says": m_world})
        if fails:
            ctx.spec_failure({"stream": "known-witness", **w}, {"cache_says": impl[-1], "file_system_says": m_world}, f["what"], f["key"])


# ------------------------------------------------------------------ the commands cache against the file system, richer world
def _rich_history(item):
    """one history on a real CommandsCache in a world the cache MACHINE does not model: a relative $PATH entry (resolved
    against the current directory, which changes), a symlinked entry that is retargeted, a $PATH directory that is removed and
    recreated, entries named like commands that are links to directories, and $ENABLE_COMMANDS_CACHE toggled while the cache
    object lives.  Returns, per lookup, what the cache's three views say and what a POSIX walk of $PATH finds right now."""
    ops, seed = item
    common.setup_repo_imports()
    import random

    from xonsh.built_ins import XSH
    from xonsh.commands_cache import CommandsCache
    from xonsh.environ import Env

    rng = random.Random(seed)
    root = os.path.realpath(str(common.scratch_root() / f"c08r-{uuid.uuid4().hex[:8]}"))
    D = {}
    clock = {}

    def settime(d, bump=True):
        clock[d] = clock.get(d, 1_600_000_000) + (1 if bump else 0)
        os.utime(d, (clock[d], clock[d]))

    def mk(d):
        os.makedirs(d, exist_ok=True)
        settime(d, bump=True)

    for k in ("d0", "d1", "d2", "w0/rel", "w1/rel", "target"):
        D[k] = os.path.join(root, k)
        mk(D[k])
    W = [os.path.join(root, "w0"), os.path.join(root, "w1")]
    link = os.path.join(root, "lnk")
    os.symlink(D["d1"], link)
    names = ["c0", "c1", "c2"]
    for k, ns in (("d0", ["c0"]), ("d1", ["c1"]), ("d2", ["c0", "c2"]), ("w0/rel", ["c1", "c2"]), ("w1/rel", ["c0"])):
        for nm in ns:
            Layout.mkexec(os.path.join(D[k], nm))
        settime(D[k])
    os.chdir(W[0])
    entry = {"d0": D["d0"], "d1": D["d1"], "d2": D["d2"], "rel": "rel", "lnk": link}
    env = XSH.env = Env(PATH=[entry["d0"], entry["rel"], entry["lnk"]], HOME=root, XONSH_COMMANDS_CACHE_READ_DIR_ONCE=[], ENABLE_COMMANDS_CACHE=True,
                        XONSH_DATA_DIR=root, COMMANDS_CACHE_SAVE_INTERMEDIATE=False)
    cc = XSH.commands_cache = CommandsCache(env)
    cache_on = True

    def posix(nm):
        for e in env["PATH"]:
            d = e if os.path.isabs(e) else os.path.join(os.getcwd(), e)
            if os.path.isdir(d):
                c = os.path.join(d, nm)
                if os.path.isfile(c) and os.access(c, os.X_OK):
                    return os.path.realpath(c)
        return None

    out = []
    try:
        for op in ops:
            o = op[0]
            if o == "lookup":
                nm = names[op[1]]
                loc = cc.locate_binary(nm)
                out.append({"locate": None if loc is None else os.path.relpath(os.path.realpath(loc), root), "in": nm in cc, "listed": nm in set(cc),
                            "posix": None if posix(nm) is None else os.path.relpath(posix(nm), root), "cache_on": cache_on})
                continue
            out.append(None)
            if o == "chdir":
                os.chdir(W[op[1]])
            elif o == "retarget":
                os.unlink(link)
                os.symlink(D[["d1", "d2", "target"][op[1]]], link)
            elif o == "setpath":
                env["PATH"] = [entry[k] for k in op[1]]
            elif o == "create":
                d = D[op[1]]
                if os.path.isdir(d) and not os.path.lexists(os.path.join(d, names[op[2]])):
                    Layout.mkexec(os.path.join(d, names[op[2]]))
                    settime(d)
            elif o == "delete":
                d = D[op[1]]
                pth = os.path.join(d, names[op[2]])
                if os.path.isdir(d) and os.path.lexists(pth) and not os.path.isdir(pth):
                    os.unlink(pth)
                    settime(d)
            elif o == "linkdir":  # an entry named like a command that is a link to a DIRECTORY
                d = D[op[1]]
                pth = os.path.join(d, names[op[2]])
                if os.path.isdir(d) and not os.path.lexists(pth):
                    os.symlink(D["target"], pth)
                    settime(d)
            elif o == "rmdir":
                d = D[op[1]]
                if os.path.isdir(d) and os.getcwd() != d:
                    shutil.rmtree(d)
            elif o == "mkdir":
                d = D[op[1]]
                if not os.path.isdir(d):
                    mk(d)
            elif o == "cacheflag":
                cache_on = bool(op[1])
                env["ENABLE_COMMANDS_CACHE"] = cache_on
            elif o == "chmodoff":  # generated only while the listing cache is switched off: then it must be noticed
                pth = os.path.join(D[op[1]], names[op[2]])
                if not cache_on and os.path.isfile(pth) and not os.path.islink(pth):
                    st = os.stat(D[op[1]])
                    os.chmod(pth, 0o644)
                    os.utime(D[op[1]], ns=(st.st_atime_ns, st.st_mtime_ns))
    finally:
        os.chdir("/")
        shutil.rmtree(root, ignore_errors=True)
    del rng
    return out


def stream_rich(ctx, n, length, name="cache-vs-filesystem-rich-world"):
    ctx.stream_rule(
        name,
        "histories on a real CommandsCache in a world the cache machine does not model (property oracle, no model): a RELATIVE "
        "$PATH entry with the current directory changing, a SYMLINKED entry retargeted and put back, a $PATH directory removed and "
        "recreated, entries named like commands that are links to directories, $ENABLE_COMMANDS_CACHE switched off and on while the "
        "cache object lives (mode changes only while it is off); at every lookup locate_binary / `in` / listing must agree with a "
        "POSIX walk of $PATH done with the os module at that moment; non-trivial = a lookup after a change that followed a lookup",
    )
    dirs = ["d0", "d1", "d2", "w0/rel", "w1/rel"]
    items = []
    for _ in range(n):
        r = ctx.rng
        ops = []
        off_for_good = r.random() < 0.35
        off = False
        for i in range(length):
            k = r.random()
            if off_for_good and not off and i >= 2:
                ops.append(["cacheflag", False])
                off = True
            elif off and k < 0.14:
                # the listing cache is off: a mode change must be noticed at the very next lookup
                nm = r.randrange(3)
                ops += [["lookup", nm], ["chmodoff", r.choice(dirs), nm], ["lookup", nm]]
            elif k < 0.36:
                ops.append(["lookup", r.randrange(3)])
            elif k < 0.46:
                ops.append(["chdir", r.randrange(2)])
            elif k < 0.54:
                ops.append(["retarget", r.randrange(3)])
            elif k < 0.64:
                ops.append(["setpath", r.sample(["d0", "d1", "d2", "rel", "lnk"], r.randint(1, 4))])
            elif k < 0.74:
                ops.append(["create", r.choice(dirs), r.randrange(3)])
            elif k < 0.81:
                ops.append(["delete", r.choice(dirs), r.randrange(3)])
            elif k < 0.87:
                ops.append(["linkdir", r.choice(dirs), r.randrange(3)])
            elif k < 0.91:
                ops.append(["rmdir", r.choice(["d1", "d2"])])
            elif k < 0.95:
                ops.append(["mkdir", r.choice(["d1", "d2"])])
            elif off:
                ops.append(["chmodoff", r.choice(dirs), r.randrange(3)])
            else:
                ops.append(["lookup", r.randrange(3)])
        ops.append(["lookup", r.randrange(3)])
        items.append([ops, r.randrange(1 << 30)])
    results = common.map_in_child(_rich_history, items, per_item_timeout=60, label="c08-rich")
    for (ops, _), res in zip(items, results):
        if res == common.HANG or (isinstance(res, dict) and "__exc__" in res):
            raise common.InfraError(f"C08 rich-world worker failed: {res}")
        seen = changed = nontriv = False
        for op in ops:
            ctx.count("rich/" + op[0])
            if op[0] == "lookup":
                nontriv = nontriv or (seen and changed)
                seen = True
            elif seen:
                changed = True
        ctx.case(name, repr(ops), nontriv, {"ops": ops[:8]})
        for i, (op, o) in enumerate(zip(ops, res)):
            if op[0] != "lookup":
                continue
            views = {o["locate"] is not None, o["in"], o["listed"]}
            if o["locate"] != o["posix"] or len(views) > 1:
                ctx.spec_failure({"stream": name, "ops": ops[: i + 1]}, o,
                                 "a commands-cache view (locate_binary / in / listing) disagrees with a POSIX walk of $PATH at that moment", None)
                break


def run(ctx):
    ctx.assumptions += [
        "a directory's mtime changes whenever an entry is created or deleted in it (the harness sets it with os.utime so the clock is controlled)",
        "aliases are empty (alias precedence belongs to C15)",
    ]
    ctx.explanation = (
        "Models in lean/XonshVerif/Model/PathLookup.lean, theorems Props/C08.lean; tie = scratch layouts and cache histories against the "
        "real locate_executable / CommandsCache, with the POSIX spec validated against /bin/sh."
    )
    replay_known(ctx)
    stream_layouts(ctx, ctx.n(60, 800))
    stream_read_once(ctx, ctx.n(20, 200))
    stream_cache(ctx, ctx.n(150, 2500), ctx.n(14, 22))
    stream_rich(ctx, ctx.n(150, 2000), ctx.n(14, 20))


def search(ctx, reason):
    ctx.extra["search_reason"] = reason
    stream_layouts(ctx, ctx.n(200, 800), name="search:layouts")
    stream_cache(ctx, ctx.n(600, 2500), 22, name="search:cache-histories")


def replay(ctx, path):
    r = json.loads(open(path).read())
    c = r["case"]
    if "ops" in c:
        ops = unfmt(c["ops"])[: c.get("upto", len(c["ops"])) + 1]
        model = ctx.driver.call("c08.cache", False, c["PATH"], c["executables"], ops)
        impl = run_cache_impl(ops, c["PATH"], c["executables"])
        m_world = None if model[-1][1] is None else model[-1][1][1]
        print("cache says:", impl[-1], " file system says:", m_world)
        bad = impl[-1]["locate"] != m_world
    else:
        print("re-run ./check C08 with the same seed for this stream")
        return common.EXIT_INFRA
    print(f"VIOLATION property={ID} replay={path}" if bad else "property holds on this history")
    return common.EXIT_VIOLATION if bad else common.EXIT_OK
