"""C04 — Arguments reach the command exactly as written - no hidden re-splitting."""

from __future__ import annotations

import itertools
import json
import os
import re
import shutil
import uuid

from .. import common
from ..codec import Sym, codes, uncodes

ID = "C04"
LEVEL = "proof"
PROPS_MODULES = ["XonshVerif.Props.C04"]
GEN_MODULES = ["XonshVerif.Gen.ArgTables"]
TECHNIQUE = (
    "Lean 4 proof (state-machine model of Python string-literal evaluation with a round-trip theorem for all strings; "
    "expandvars / expand_path identity lemmas; argument-list assembly as list algebra) + translator (regex, action tables, "
    "constants) + differential correspondence: generated commands -> real source text -> real Execer.exec observed by a "
    "recording callable alias and by a real child process"
)
LEVEL_TEXT = (
    "proof (partial where the code is): Python literal evaluation (plain / r / f / fr x ' \" \'\'\' \"\"\") is a Lean state machine; the literal the "
    "harness writes (`render`, executed through the driver) is proved to evaluate to the intended string for ALL strings up to U+10FFFF incl. NUL, "
    "lone surrogates, quotes, backslash runs, newlines, and all escaping choices (C04_literal_roundtrip); a raw literal's value is its "
    "body (C04_raw_verbatim). expandvars / expand_path are modelled from POSIX_ENVVAR_REGEX (translated and compared every run) and "
    "proved to be the identity without `$` / tilde-prefix (C04_expand_id) and on unset variables (C04_expandvars_unknown). The "
    "assembly (_subproc_cliargs, atom actions translated from the parser source, list_of_strs_or_callables, outer product, "
    "resolve_args_list, _fix_null_cmd_bytes) is proved: raw literal = one verbatim argument, non-raw = one argument = documented "
    "expansion, @() injection verbatim / one per element / in place for ALL values, word count and order, alias argv = Popen argv "
    "without NUL; @$() re-splits the output LINE BY LINE (C04_captured_inject_per_line, over an abstract per-line splitter). PARTIAL + counterexample (open finding): `a@(x)b` (globbed / expanded). Macro text (cut at U+000B/000C/001C-1E/0085/"
    "2028/2029; parser crash after an extend atom) and raw f-strings (expanded: the PEP 701 rule dropped is_raw) are dual-variant: "
    "three facts translated from the parser source select the variant; the defective one has partial theorems + counterexamples, the "
    "full statements (C04_macro_raw, C04_raw_fstring_partial) hold for the repaired one, which is what /repo has since 7777fd2 / bba679b / 6f83989 (a regression "
    "flips the translated fact AND makes the fixed witness fail, which is reported as a violation). Tie: generated atom lists -> source text -> real Execer.exec with a recording alias and a real child "
    "process; both argv's are compared with the Lean model, with each other and with the property oracle (what was written)."
)
LEVEL_NOTE = (
    "Trusted: Lean kernel + standard axioms; harness; CPython (its own literal evaluation is the definition of `the string's Python "
    "value`, `re`'s \\w classification, str(), os.fsdecode, os.path.expanduser's pwd lookups). Searched, not proved: the lexer's word "
    "splitting and the execer's bare-line -> ![...] rewriting (six open bare-line findings live there, each with a mechanism-specific "
    "classifier confirmed by re-running the command with the trigger removed; failures are attributed to OPEN findings only, so the "
    "seven repaired ones are must-pass), Lexer.split itself (abstract per-line splitter in the @$() model: the per-line contract capturedInject / C04_captured_inject_per_line IS modelled and compared, what the lexer answers for one line is only checked against the tokens of the output; three open findings there) and $() as an argument, the OS "
    "leg (Popen/execve/argv decoding: real-child stream). Not covered: p\"\" / b\"\" literals, ${...} and $[...] inside arguments, redirect "
    "tuples in resolve_args_list, lines that are also valid Python (their Python / subprocess decision is C02 / C03: written as ![...] here)."
)

# translated facts selecting the model variant, set by translate() (defaults = the code as it is at the time of writing):
FSTR_KEEPS_RAW = [False]  # does FStringRules.p_fstring_expr put `is_raw` on the node (then fr"…" is not expanded)?
LINES_CUT_AT_LB = [True]  # does BaseParser.lines use str.splitlines (then macro text is cut at U+000C, U+2028 …)?
BANG_NEEDS_LIST = [True]  # does _append_subproc_bang append to `.elts` (then a macro tail after an extend atom crashes the parser)?
DOCUMENTED = [True, False, False]  # the variant the documentation describes
# keys of the findings that are still open (set by run()): the generator goes easy on a trigger only while its finding is open
OPEN_KEYS = {"macro-tail-after-extend-crashes", "word-with-nonidentifier-wordchar-garbled", "whitespace-run-before-untokenizable-char"}
ALL_OPEN = [None]  # set of every open C04 key once run() has read known_findings.json (None: treat every finding as open)


def is_open(key):
    """failures are only ever attributed to findings that are still open: what looks like a repaired finding is a regression"""
    return ALL_OPEN[0] is None or key in ALL_OPEN[0]
LB = [0x0B, 0x0C, 0x1C, 0x1D, 0x1E, 0x85, 0x2028, 0x2029]  # str.splitlines boundaries other than \n \r
QUOTES = {"s1": "'", "d1": '"', "s3": "'''", "d3": '"""'}
PY_KEYWORD_WORDS = {"and", "or"}


# ============================================================================ the real session
class Session:
    """one xonsh session for the whole run: real Execer, a recording callable alias `rec`, a real executable `xvargv`"""

    def __init__(self):
        common.setup_repo_imports()
        import warnings

        warnings.simplefilter("ignore")
        self.root = str(common.scratch_root() / f"c04-{uuid.uuid4().hex[:8]}")
        for d in ("bin", "home", "cwd", "cwd/sub"):
            os.makedirs(os.path.join(self.root, d))
        self.cwd = os.path.join(self.root, "cwd")
        for f in ("p1.py", "p2.py", "a b.txt", "q*.md", ".hid.py", "sub/in.py", "X1.PY"):
            open(os.path.join(self.cwd, f), "w").close()
        self.out = os.path.join(self.root, "out.jsonl")
        child = os.path.join(self.root, "bin", "xvargv")
        with open(child, "w") as f:
            f.write("#!/venv/bin/python -SE\nimport json,sys,os\nopen(os.environ['XV_ARGV_OUT'],'a').write(json.dumps(sys.argv[1:])+'\\n')\n")
        os.chmod(child, 0o755)
        self.saved_home = os.environ.get("HOME")
        self.saved_cwd = os.getcwd()
        os.environ["HOME"] = os.path.join(self.root, "home")
        from xonsh.built_ins import XSH
        from xonsh.execer import Execer

        self.XSH = XSH
        self.ex = Execer()
        XSH.load(execer=self.ex, inherit_env=False)
        env = self.env = XSH.env
        env["PATH"] = [os.path.join(self.root, "bin")]
        env["XONSH_SHOW_TRACEBACK"] = False
        env["XONSH_INTERACTIVE"] = False
        env["XV_ARGV_OUT"] = self.out
        env["XONSH_DATA_DIR"] = os.path.join(self.root, "home")
        env["XV_A"] = "alpha beta"
        env["XV_STAR"] = "*"
        env["XV_EMPTY"] = ""
        env["XV_DOLLAR"] = "$XV_A ~"
        env["XV_TILDE"] = "~"
        env["XV_N"] = 7
        env["XV_LIBPATH"] = ["/a", "/b c"]
        env["\u00c9_V"] = "\u00fcnic\u00f6de"
        os.chdir(self.cwd)
        self.rec = []

        def _rec(args, stdin=None):
            self.rec.append(list(args))
            return 0

        def _rec_unthreadable(args):
            self.rec.append(list(args))
            return 0

        from xonsh.tools import unthreadable

        XSH.aliases["rec"] = _rec
        XSH.aliases["recu"] = unthreadable(_rec_unthreadable)
        self.emit_text = ""
        XSH.aliases["emit"] = lambda args, stdin=None: self.emit_text  # a command whose standard output is `emit_text`
        # the file-system oracle: what glob answered for which (expanded) pattern
        import xonsh.tools as xt

        self.xt = xt
        self.globlog = {}
        orig = xt._iglobpath

        def recording_iglobpath(s, *a, **kw):
            paths, s2 = orig(s, *a, **kw)
            lst = list(paths)
            self.globlog[s2] = lst
            return iter(lst), s2

        self._orig_iglobpath = orig
        xt._iglobpath = recording_iglobpath
        self.all_names = set(env._d) | set(env._vars)
        import pwd

        self.homes = [["", os.environ["HOME"]]] + [[p.pw_name, p.pw_dir] for p in pwd.getpwall()]

    def close(self):
        self.xt._iglobpath = self._orig_iglobpath
        os.chdir(self.saved_cwd)
        if self.saved_home is None:
            os.environ.pop("HOME", None)
        else:
            os.environ["HOME"] = self.saved_home
        shutil.rmtree(self.root, ignore_errors=True)

    def run(self, src, glbs):
        """-> ("ok", alias_argvs, child_argvs) | ("exc", type, message)"""
        self.rec.clear()
        self.globlog.clear()
        try:
            os.unlink(self.out)
        except OSError:
            pass
        import contextlib
        import io

        try:
            with contextlib.redirect_stderr(io.StringIO()):  # (xonsh's own `command not found` chatter)
                self.ex.exec(src, mode="exec", glbs=dict(glbs), locs=None, filename="<c04>")
        except BaseException as e:  # noqa: BLE001  (SystemExit / KeyboardInterrupt from the code under test included)
            if isinstance(e, KeyboardInterrupt):
                raise
            return ("exc", type(e).__name__, str(e)[:200])
        finally:
            if os.getcwd() != self.cwd:
                os.chdir(self.cwd)
        child = []
        try:
            with open(self.out) as f:
                child = [json.loads(l) for l in f]
        except OSError:
            pass
        return ("ok", [list(a) for a in self.rec], child)

    # ---- oracles handed to the Lean model (external behaviour: Unicode database, session env, passwd, file system)
    def env_value(self, name):
        env = self.env
        if name not in env:
            return None
        detyper = env.get_detyper(name)
        val = env[name]
        value = str(val) if detyper is None else detyper(val)
        return str(val) if value is None else value

    def envspec(self, blob, expand_vars=True, expand_user=True):
        words = sorted({ord(c) for c in blob if ord(c) >= 128 and re.fullmatch(r"\w", c)})
        table = []
        for n in sorted(self.all_names):
            if isinstance(n, str) and n and n in blob:
                v = self.env_value(n)
                if v is not None:
                    table.append([codes(n), codes(v)])
        homes = [[codes(a), codes(b)] for a, b in self.homes if a == "" or a in blob]
        return [words, table, homes, expand_vars, expand_user]

    def globspec(self):
        return [[codes(k), [codes(x) for x in v]] for k, v in self.globlog.items()]


# ============================================================================ values
def pyval_obj(v):
    """JSON-able description -> the Python object"""
    k = v[0]
    if k == "str":
        return uncodes(v[1])
    if k == "bytes":
        return bytes(v[1])
    if k == "int":
        return v[1]
    if k == "none":
        return None
    if k == "float":
        return float(v[1])
    if k == "list":
        return [pyval_obj(x) for x in v[1]]
    if k == "tuple":
        return tuple(pyval_obj(x) for x in v[1])
    if k == "gen":
        return (x for x in [pyval_obj(y) for y in v[1]])
    raise ValueError(k)


def item_expected(o):
    """what the property says one injected element becomes"""
    if isinstance(o, str):
        return o
    if isinstance(o, bytes):
        return os.fsdecode(o)
    return str(o)


def item_sx(o):
    if isinstance(o, str):
        return [Sym("s"), codes(o)]
    if isinstance(o, bytes):
        return [Sym("b"), codes(os.fsdecode(o))]
    return [Sym("o"), codes(str(o))]


def pyval_sx(v):
    """-> (driver encoding, expected argument list)"""
    k = v[0]
    if k in ("list", "tuple", "gen"):
        objs = [pyval_obj(x) for x in v[1]]
        return [Sym("iter"), [item_sx(o) for o in objs]], [item_expected(o) for o in objs]
    o = pyval_obj(v)
    return [Sym("one"), item_sx(o)], [item_expected(o)]


def pyval_inline(v):
    """Python source for the value (CPython's own repr)"""
    k = v[0]
    if k == "gen":
        return "(x for x in " + repr([pyval_obj(y) for y in v[1]]) + ")"
    return repr(pyval_obj(v))


def has_special(s):
    return "*" in s or "$" in s or "~" in s


# ============================================================================ generators
UNI = ["\u00e9", "e\u0301", "\u4e2d", "\U0001d11e", "\U0001f600", "\u05d0", "\u200d", "\u00df", "\u0130", "\u00b2", "\u0660", "\ufb01"]
SURR = ["\udcff", "\udc80", "\udce9"]
DOLLARS = ["$XV_A", "$XV_STAR", "$XV_EMPTY", "$XV_DOLLAR", "$XV_N", "$XV_LIBPATH", "$NOPE", "$XV_A_", "$xv_a", "$\u00c9_V", "${'XV_A'}",
           '${"XV_A"}', "${XV_A}", "${'NOPE'}", "${'XV_A{'x", "$1", "$", "$$", "$XV_A$XV_N", "$XV_TILDE", "$XV_A\u00e9", "$PATH", "$HOME"]
TILDES = ["~", "~/x", "~root", "~root/y", "~nobody", "~nosuchuser", "~/", "a=~", "a=~/x:~root:b", "=~", "x:~", "~~"]


def gen_value(rng, surrogates=True, nul=False, lone=False, lb=False, maxlen=12):
    """an argument value: spaces, quotes, backslash runs (esp. trailing), newlines / tabs, glob and shell metacharacters, `$` names that are
    / are not set, tilde prefixes, braces, Unicode incl. astral and combining, surrogate-escaped bytes"""
    r = rng.random()
    if r < 0.03:
        return ""
    if r < 0.06:
        return rng.choice(["*", "*.py", "p*", "?", "[ab]", "a b", " ", "  x  ", "-", "--", "-n", "\\", "\\\\", "'", '"', "'''", '"""', "{}", "{", "}", "{0}", "#", " #x", "!", "a;b", "$(x)", "@(x)", "`x`", "\n", "a\nb", "\\n", "\t", "a\\", "a\\\\", "a\\\\\\"])
    out = []
    for _ in range(rng.randint(1, maxlen)):
        k = rng.random()
        if k < 0.30:
            out.append(rng.choice("abcxyzABC019_-./"))
        elif k < 0.38:
            out.append(rng.choice(" \t"))
        elif k < 0.46:
            out.append(rng.choice(["'", '"', "''", '"""', "'''"]))
        elif k < 0.56:
            out.append("\\" * rng.randint(1, 3))
        elif k < 0.60:
            out.append("\n")
        elif k < 0.68:
            out.append(rng.choice("*?[]|&;<>(){}!#`^%=:,@+"))
        elif k < 0.75:
            out.append(rng.choice(DOLLARS))
        elif k < 0.79:
            out.append(rng.choice(TILDES))
        elif k < 0.89:
            out.append(rng.choice(UNI))
        elif k < 0.92 and surrogates:
            out.append(rng.choice(SURR))
        elif k < 0.93 and nul:
            out.append("\0")
        elif k < 0.94 and lone:
            out.append(rng.choice(["\ud800", "\udfff", "\udbff"]))
        elif k < 0.96 and lb:
            out.append(chr(rng.choice(LB)))
        elif k < 0.97:
            out.append("\r")
        else:
            out.append(rng.choice(["\xa0", "\u3000", "\x1f", "\x7f", "\x01", "\u2003"]))
    s = "".join(out)
    if rng.random() < 0.15:
        s += "\\" * rng.randint(1, 3)  # trailing backslash run
    if rng.random() < 0.03:
        s = s * rng.randint(8, 20)
    return s


WORD_UNI = [u for u in UNI if u not in ("\u00b2", "\u0660")] * 4 + ["\u00b2", "\u0660"]  # (superscript / non-ASCII digits at a word start are a known lexer finding)
WORD_SAFE = "abcdefghijklmnopqrstuvwxyzABCDEFGHIJKLMNOPQRSTUVWXYZ0123456789_-./,:+%^=@~"


def gen_word(rng):
    """a bare word the lexer keeps in one piece (letters, digits, punctuation that is no operator of subprocess mode, `$NAME`s, tilde
    prefixes, glob characters, balanced brackets, quotes that stay, non-ASCII letters / symbols / spaces that do not separate)"""
    while True:
        r = rng.random()
        if r < 0.08:
            w = rng.choice(["-", "--", "-x", "--key=val", "a=b", "1e5x", "0x1g", "1.5.2", ".5", "5.", "07", "1_0", "=", "==", ":=", "->", "...", "//", "+=", "not", "if",
                            "else", "in", "is", "lambda", "None", "True", "match", "case", "type", "andy", "xor", "a.and", "x@y", "@", "?", "a?b", "a#b", "a\\b", "\\\\x"])
        elif r < 0.16:
            w = rng.choice(DOLLARS[:19]) + rng.choice(["", "/x", ".y", "-z", ":", "="])
            if rng.random() < 0.4:
                w = rng.choice(["a", "x/", "--k=", ""]) + w
        elif r < 0.24:
            w = rng.choice(TILDES) + rng.choice(["", "", "/z"])
        elif r < 0.32:
            w = rng.choice(["*", "*.py", "p*", "p*.py", "*.nomatch", "q*", "sub/*", "**", "a*b", "x=*", "$XV_STAR", "~/*", "P1.*", ".*", "*/in.py"])
        elif r < 0.38:
            w = rng.choice(["[a]", "[]", "a[1]b", "x[y][z]", "[a,b]"])
        elif r < 0.46:
            q = rng.choice("'\"")
            inner = "".join(rng.choice("ab c$*~XV_A\\#") for _ in range(rng.randint(0, 6)))
            if inner.endswith("\\") or "\\" + q in inner:
                inner = inner.replace("\\", "")
            w = rng.choice(["a", "--key=", "x.", "\u00e9"]) + q + inner + q + rng.choice(["", "d", "=e"])
        else:
            n = rng.randint(1, 9)
            uni = WORD_UNI if "word-with-nonidentifier-wordchar-garbled" in OPEN_KEYS else UNI
            w = "".join(rng.choice(WORD_SAFE) if rng.random() < 0.85 else rng.choice(uni + ["\u2192", "\u20ac", "\xa0", "\u3000", "\\", "#", "?"]) for _ in range(n))
        if word_ok(w) and not (w.endswith("?") and rng.random() < 0.5):
            return w


def word_ok(w):
    """is this text ONE bare word of subprocess mode by the documented syntax (no operator, bracket, quote imbalance, comment start, macro
    `!`, `${…}` / `@(…)` / `$(…)` sub-expression, regex-glob backtick, redirect, trailing line continuation)?"""
    if not w or w in PY_KEYWORD_WORDS:
        return False
    if re.match(r"(and|or)\s", w):
        return False  # `and` / `or` followed by white space (for the lexer: any Unicode space, e.g. U+3000) is the operator
    if w[0] in "#!" or w.endswith("\\") or "`" in w or "!" in w:
        return False
    if re.search(r"@[($!]|[$][(\[{]", w) and "${" not in w:
        return False
    if "${" in w and not re.fullmatch(r"[^{}]*\$\{['\"]?\w+['\"]?\}?[^{}]*|.*\$\{'XV_A\{'x.*", w):
        return False
    if "{" in w or "}" in w:
        return False  # `${…}` is Python mode (an env lookup expression), `{` alone does not parse: both outside `word`
    if re.fullmatch(r"\d*>+.*|.*[<>|&;()].*", w, flags=re.S):
        return False
    if w.count("[") != w.count("]") or re.search(r"\][^\[]*\[", w) and w.index("]") < w.index("["):
        return False
    inq = None
    for c in w:
        if inq:
            inq = None if c == inq else inq
        elif c in "'\"":
            inq = c
        elif c in " \t\n\r\x0b\x0c":
            return False  # blanks only inside quotes that stay
    if inq:
        return False
    return True


def macro_ok(t, closer=None, allow_nl=False):
    """is this text acceptable after a macro `!` / inside `@!( )`: brackets balanced, quotes paired (and closed on their line), no comment,
    no trailing continuation; newlines only where the command is written inside brackets (allow_nl)?"""
    if ("\n" in t and not allow_nl) or "\r" in t or "`" in t or re.search(r"(^|\s)#", t) or t.endswith("\\"):
        return False
    if "\'\'\'" in t or '"""' in t:
        return False  # (the text is still tokenized: three quotes in a row open a triple-quoted literal)
    depth = []
    pairs = {")": "(", "]": "[", "}": "{"}
    inq = None
    esc = False
    for c in t:
        if inq and c == "\n":
            return False
        if inq:
            # (the text is still TOKENIZED: inside a quoted stretch a backslash protects the next character)
            if esc:
                esc = False
            elif c == "\\":
                esc = True
            elif c == inq:
                inq = None
            continue
        if c == "\n" and inq:
            return False
        if c in "'\"":
            inq = c
        elif c in "([{":
            depth.append(c)
        elif c in pairs:
            if not depth or depth.pop() != pairs[c]:
                return False
    if depth or inq:
        return False
    return True


MACRO_CHARS = "abcxyz019 \t\t  $*~'\"\\|&;!=,.:-_@#%^?"  # (no backtick: a PAIR of them anywhere on the line is the regex-glob syntax)


def gen_macro_text(rng, closer, lb=False):
    """text after `!` / inside `@!( )`: anything on one line with balanced brackets; no ` #` (a comment), no trailing backslash"""
    out = []
    for _ in range(rng.randint(0, 14)):
        k = rng.random()
        if k < 0.7:
            out.append(rng.choice(MACRO_CHARS))
        elif k < 0.78:
            out.append(rng.choice(UNI + ["\xa0", "\u3000"]))
        elif k < 0.86:
            out.append(rng.choice(["(a)", "[b c]", "{d}", "( [ ] )", "$XV_A", "~", "*.py", "\"q r\"", "'s  t'", "$(ls)", "@(x)"]))
        elif k < 0.90 and lb:
            out.append(chr(rng.choice(LB)))
        else:
            out.append(rng.choice(["  ", " - ", "=="]))
    t = "".join(out)
    t = re.sub(r"(^|\s)#", r"\1", t)  # a `#` after white space starts a comment
    t = t.rstrip("\\")
    # quotes must pair up for the tokenizer to stay on this line
    for q in "'\"":
        if t.count(q) % 2:
            t = t.replace(q, "", 1)
    if re.search(r"'[^']*\"[^']*'|\"[^\"]*'[^\"]*\"", t):
        t = t.replace("'", "").replace('"', "")
    if t.endswith("\\"):
        t = t.rstrip("\\")
    if closer and closer in t:
        pass
    if not macro_ok(t):
        return gen_macro_text(rng, closer, lb)
    if rng.random() < 0.3:
        t = " " * rng.randint(0, 3) + t + " " * rng.randint(0, 3)
    return t


def multiline_macro(rng, t):
    """the same macro text continued over two or three physical lines (only possible where the command is written inside brackets):
    some blanks outside quotes become newline + indentation"""
    spots, inq = [], None
    for i, c in enumerate(t):
        if inq:
            inq = None if c == inq else inq
        elif c in "'\"":
            inq = c
        elif c == " " and 0 < i < len(t) - 1:
            spots.append(i)
    if not spots:
        return t + "\n" + " " * rng.randint(0, 4) + rng.choice(["more", "b c", "$XV_A *", "x  y"])
    for i in sorted(rng.sample(spots, min(len(spots), rng.choice([1, 1, 2]))), reverse=True):
        t = t[:i] + "\n" + " " * rng.randint(0, 6) + t[i + 1:]
    return t if macro_ok(t, allow_nl=True) else t.replace("\n", " ")


def gen_pyval(rng, allow_lone=True, nul=False):
    r = rng.random()

    def item():
        k = rng.random()
        if k < 0.75:
            return ["str", codes(gen_value(rng, nul=nul, lone=allow_lone and rng.random() < 0.2, lb=rng.random() < 0.1))]
        if k < 0.82:
            b = bytes(rng.choice([0x61, 0x20, 0x2A, 0x24, 0xFF, 0x80, 0xC3, 0xA9, 0x27, 0x5C]) for _ in range(rng.randint(0, 5)))
            return ["bytes", list(b)]
        if k < 0.90:
            return ["int", rng.choice([0, 1, -5, 42, 10**12])]
        if k < 0.94:
            return ["none"]
        if k < 0.97:
            return ["float", rng.choice(["1.5", "-0.0", "1e+30"])]
        return ["list", [["str", codes(gen_value(rng))], ["int", 3]]]  # a nested list: one argument, its str()

    if r < 0.55:
        return item()
    kind = "list" if r < 0.80 else ("tuple" if r < 0.90 else "gen")
    return [kind, [item() for _ in range(rng.choice([0, 1, 1, 2, 2, 3, 4]))]]


# ============================================================================ atoms -> source text, driver encoding, oracle
class Builder:
    """collects the variables (`v0`, `v1`, …) the generated source refers to"""

    def __init__(self, ctx, ses):
        self.ctx, self.ses, self.rng = ctx, ses, ctx.rng
        self.glbs = {}

    def var(self, obj):
        n = f"v{len(self.glbs)}"
        self.glbs[n] = obj
        return n


def gen_lit(b, popen_ok, lb_raw=False, plain=False):
    """a string literal atom: value first, then the way it is written"""
    rng = b.rng
    raw = rng.random() < 0.28
    f = rng.random() < 0.22 and not plain
    q = rng.choice(list(QUOTES))
    parts = []
    nparts = 1 if not f else rng.choice([1, 2, 3])
    for i in range(nparts):
        if f and (i % 2 == 1 or (nparts == 1 and rng.random() < 0.3)):
            obj = rng.choice([gen_value(rng), rng.choice([3, -1, None, 2.5])])
            conv = rng.choice(["", "", "!s", "!r"])
            val = repr(obj) if conv == "!r" else str(obj)
            parts.append({"p": "f", "obj": ["str", codes(obj)] if isinstance(obj, str) else (["none"] if obj is None else (["int", obj] if isinstance(obj, int) else ["float", repr(obj)])),
                          "conv": conv, "value": codes(val)})
        else:
            # (NUL and lone surrogates outside U+DC80..DCFF only where nothing is expanded: os.path.expanduser's pwd lookup raises on them)
            s = gen_value(rng, nul=raw and not f and not popen_ok and rng.random() < 0.2, lone=raw and not f and not popen_ok and rng.random() < 0.2, lb=True)
            parts.append({"p": "t", "value": codes(s)})
    return {"k": "lit", "raw": raw, "f": f, "q": q, "prefix": None, "parts": parts, "lb_raw": lb_raw}


def render_lit(b, a):
    """decide how the literal is written; the body comes from the LEAN renderer (non-raw) or is the value itself (raw)"""
    rng, drv = b.rng, b.ctx.driver
    q = a["q"]
    triple = q in ("s3", "d3")
    raw, f = a["raw"], a["f"]
    for p in a["parts"]:
        if p["p"] != "t":
            continue
        v = p["value"]
        if raw and not f:
            ok = drv.call("c04.rawok", Sym(q), v)
            if ok and (a["lb_raw"] or not any(c in LB for c in v)):
                p["body"] = list(v)
                continue
            raw = a["raw"] = False  # this value cannot be written raw: write it as an ordinary literal …
            # … which is expanded: no NUL / lone surrogates there (os.path.expanduser's pwd lookup raises on them)
            p["value"] = [c for c in v if c != 0 and not (0xD800 <= c <= 0xDFFF and not 0xDC80 <= c <= 0xDCFF)]
    for p in a["parts"]:
        if p["p"] != "t" or "body" in p and raw:
            continue
        v = p["value"]
        if raw and f:
            # fr"...": only values that need no escape at all (checked by evaluating the body in the model)
            body = []
            for c in v:
                body += [c, c] if c in (123, 125) else [c]
            got = drv.call("c04.eval", True, True, Sym(q), body)
            if got is not None and got[1] == list(v) and not any(c in LB or c == 13 or c == 0 or 0xD800 <= c <= 0xDFFF for c in v):
                p["body"] = body
                continue
            raw = a["raw"] = False
            for p2 in a["parts"]:
                p2.pop("body", None)
            return render_lit(b, a)
        raw_nl = triple and rng.random() < 0.5
        a["rawnl"] = raw_nl
        choices = [(c in LB and not a["lb_raw"]) or (rng.random() < 0.06) for c in v]
        p["body"] = drv.call("c04.render", f, raw_nl, choices, v)
    if a["prefix"] is None:
        pre = ("r" if raw else "") + ("f" if f else "")
        pre = "".join(rng.sample(pre, len(pre)))
        a["prefix"] = "".join(ch.upper() if rng.random() < 0.3 else ch for ch in pre)
    return a


def lit_source(b, a):
    src = a["prefix"] + QUOTES[a["q"]]
    for p in a["parts"]:
        if p["p"] == "t":
            src += uncodes(p["body"])
        else:
            name = b.var(pyval_obj(p["obj"]))
            src += "{" + name + p["conv"] + "}"
    return src + QUOTES[a["q"]]


def lit_sx(a):
    parts = []
    for p in a["parts"]:
        parts.append([Sym("t"), p["body"]] if p["p"] == "t" else [Sym("f"), p["value"]])
    return [Sym("lit"), a["raw"], a["f"], Sym(a["q"]), parts]


def lit_value(a):
    return "".join(uncodes(p["value"]) for p in a["parts"])


def gen_atom(b, popen_ok, kinds):
    rng = b.rng
    k = rng.choices(list(kinds), weights=list(kinds.values()))[0]
    if k == "word":
        return {"k": "word", "t": codes(gen_word(rng))}
    if k == "lit":
        return render_lit(b, gen_lit(b, popen_ok))
    if k == "inject":
        v = gen_pyval(rng, allow_lone=not popen_ok, nul=not popen_ok)
        form = "var" if rng.random() < 0.55 else "inline"
        return {"k": "inject", "val": v, "form": form, "pad": rng.choice(["", "", " ", "  "])}
    if k == "macroat":
        return {"k": "macroat", "t": codes(gen_macro_text(rng, ")"))}
    if k == "adj":
        parts = []
        n = rng.choice([2, 2, 3, 3, 4])
        have_inj = False
        for i in range(n):
            last_text = parts and parts[-1][0] == "t"
            r = rng.random()
            if r < 0.45 and not last_text:
                w = gen_word(rng)
                if re.search(r"['\"]", w):
                    w = "a.b"
                parts.append(["t", codes(w)])
            elif r < 0.93 or not have_inj:
                v = gen_pyval(rng, allow_lone=False, nul=False)
                if v[0] == "gen" or (v[0] in ("list", "tuple") and len(v[1]) > 3):
                    v = ["str", codes(gen_value(rng, lone=False))]
                if rng.random() < 0.75:
                    v = ["str", codes(rng.choice(["x", "y z", "", "1", "\u00e9", "a\\", "-", "a b  c", "'q'", "\U0001d11e"]))]  # keep most combinations clean
                parts.append(["i", v, "var" if rng.random() < 0.6 else "inline"])
                have_inj = True
            else:
                parts.append(["m", codes(gen_macro_text(rng, ")"))])
                have_inj = True
        return {"k": "adj", "parts": parts}
    raise ValueError(k)


def atom_source(b, a):
    k = a["k"]
    if k == "word":
        return uncodes(a["t"])
    if k == "lit":
        return lit_source(b, a)
    if k == "inject":
        inner = b.var(pyval_obj(a["val"])) if a["form"] == "var" else pyval_inline(a["val"])
        return "@(" + a["pad"] + inner + a["pad"] + ")"
    if k == "macroat":
        return "@!(" + uncodes(a["t"]) + ")"
    if k == "adj":
        out = ""
        for p in a["parts"]:
            if p[0] == "t":
                out += uncodes(p[1])
            elif p[0] == "i":
                out += "@(" + (b.var(pyval_obj(p[1])) if p[2] == "var" else pyval_inline(p[1])) + ")"
            else:
                out += "@!(" + uncodes(p[1]) + ")"
        return out
    raise ValueError(k)


def atom_sx(a):
    k = a["k"]
    if k == "word":
        return [Sym("word"), a["t"]]
    if k == "lit":
        return lit_sx(a)
    if k == "inject":
        return [Sym("inject"), pyval_sx(a["val"])[0]]
    if k == "macroat":
        return [Sym("macroat"), bool(a.get("lbb")), a["t"]]
    if k == "adj":
        ps = []
        for p in a["parts"]:
            ps.append([Sym("t"), p[1]] if p[0] == "t" else ([Sym("i"), pyval_sx(p[1])[0]] if p[0] == "i" else [Sym("m"), bool(p[2]) if len(p) > 2 else False, p[1]]))
        return [Sym("adj"), ps]
    raise ValueError(k)


def atom_blob(a):
    """all text that may end up in an argument of this atom (to narrow the env / passwd / Unicode oracles)"""
    k = a["k"]
    if k in ("word", "macroat"):
        return uncodes(a["t"])
    if k == "lit":
        return lit_value(a)
    if k == "inject":
        return "\x00".join(pyval_sx(a["val"])[1])
    lol = []
    for p in a["parts"]:
        lol.append([uncodes(p[1])] if p[0] in ("t", "m") else pyval_sx(p[1])[1])
    return "\x00".join("".join(c) for c in itertools.islice(itertools.product(*lol), 200))


def atom_oracle(a):
    """what the PROPERTY says this atom contributes, derived from what was written:
    ("exact", [args])  — these arguments, verbatim;   ("model", n|None) — documented expansion applies: the Lean spec decides
    the value (n = number of arguments the property fixes, None when globbing may change it)"""
    k = a["k"]
    if k == "word":
        w = uncodes(a["t"])
        if "*" in w:
            return ("model", None)
        return ("exact", [w]) if not has_special(w) else ("model", 1)
    if k == "lit":
        v = lit_value(a)
        if a["raw"] or not ("$" in v or "~" in v):
            return ("exact", [v])
        return ("model", 1)
    if k == "inject":
        return ("exact", pyval_sx(a["val"])[1])
    if k == "macroat":
        return ("exact", [uncodes(a["t"]).strip()])
    lol = []
    for p in a["parts"]:
        lol.append([uncodes(p[1])] if p[0] == "t" else ([uncodes(p[1]).strip()] if p[0] == "m" else pyval_sx(p[1])[1]))
    combos = ["".join(c) for c in itertools.product(*lol)]
    if not any(has_special(c) for c in combos):
        return ("exact", combos)
    injected_special = any(has_special(x) for p in a["parts"] if p[0] != "t" for x in ([uncodes(p[1])] if p[0] == "m" else pyval_sx(p[1])[1]))
    return ("adjacent", combos, injected_special)


# ============================================================================ one command
FORMS = ["bare", "bare", "bare", "bare", "![", "$[", "$("]
PROTECT = {"*": "\ue000", "$": "\ue001", "~": "\ue002"}  # private-use stand-ins: never special, never generated
UNPROTECT = {v: k for k, v in PROTECT.items()}


def build_source(b, cmd, atoms, bang, form, sep=None):
    """-> the source text; records on every macro atom / part / the tail whether a line-boundary character precedes it on the line"""
    rng = b.rng
    op, cl = {"bare": ("", ""), "![": ("![", "]"), "$[": ("$[", "]"), "$(": ("$(", ")")}[form]
    line = op + cmd

    def lbb():
        return any(chr(c) in line for c in LB)

    for a in atoms:
        seps = [" ", " ", " ", " ", " ", "  ", "\t", "   "] if "whitespace-run-before-untokenizable-char" in OPEN_KEYS else [" ", " ", "  ", "\t", "   ", " \t "]
        line += sep or rng.choice(seps)
        if a["k"] == "macroat":
            a["lbb"] = lbb()
        if a["k"] == "adj":
            for p in a["parts"]:
                if p[0] == "t":
                    line += uncodes(p[1])
                elif p[0] == "i":
                    line += "@(" + (b.var(pyval_obj(p[1])) if p[2] == "var" else pyval_inline(p[1])) + ")"
                else:
                    while len(p) < 3:
                        p.append(False)
                    p[2] = lbb()
                    line += "@!(" + uncodes(p[1]) + ")"
        else:
            line += atom_source(b, a)
    bang_lbb = False
    if bang is not None:
        line += (rng.choice(["", " "]) if sep is None else " ") + "!"
        bang_lbb = lbb()
        line += (" " if bang[:1] in ("=", "(", "[") else "") + bang  # `!=`, `!(`, `![` are single tokens, not a macro `!`
    return line + cl, bang_lbb


def protect(s):
    return "".join(PROTECT.get(c, c) for c in s)


def protect_val(v, top=True):
    k = v[0]
    if k == "str":
        return ["str", codes(protect(uncodes(v[1])))]
    if k in ("list", "tuple", "gen") and top:
        return [k, [protect_val(x, top=False) for x in v[1]]]
    return ["str", codes(protect(item_expected(pyval_obj(v))))]


def protected_atoms(atoms):
    """the same command with every value injected INTO A WORD made opaque to globbing / expansion (private-use stand-ins for * $ ~):
    what the documented outer product says, with the documented expansion still applied to the word's own text"""
    out = []
    for a in atoms:
        if a["k"] != "adj":
            out.append(a)
            continue
        ps = []
        for p in a["parts"]:
            if p[0] == "t":
                ps.append(p)
            elif p[0] == "i":
                ps.append(["i", protect_val(p[1]), p[2]])
            else:
                ps.append(["m", codes(protect(uncodes(p[1]))), p[2] if len(p) > 2 else False])
        out.append({"k": "adj", "parts": ps})
    return out


def fs_ok(s):
    return all(not (0xD800 <= ord(c) <= 0xDFFF) or 0xDC80 <= ord(c) <= 0xDCFF for c in s)


def call_model(ctx, ses, atoms, bang, bang_lbb, blob, keeps=None):
    """-> None (a literal is outside the model) | "crash" (the model says the parser raises) | (alias argv, popen argv)"""
    flags = [FSTR_KEEPS_RAW[0], LINES_CUT_AT_LB[0], BANG_NEEDS_LIST[0]] if keeps is None else DOCUMENTED
    m = ctx.driver.call("c04.cmd", ses.envspec(blob), ses.globspec(), flags, [atom_sx(a) for a in atoms],
                        None if bang is None else [Sym("some"), [bang_lbb, codes(bang)]])
    if m is None:
        return None
    if m == "crash":
        return "crash"
    return [uncodes(x) for x in m[1]], [uncodes(x) for x in m[2]]


def macro_texts(atoms, bang):
    out = [uncodes(a["t"]) for a in atoms if a["k"] == "macroat"] + [uncodes(p[1]) for a in atoms if a["k"] == "adj" for p in a["parts"] if p[0] == "m"]
    return out + ([bang] if bang is not None else [])


def python_statement(src):
    """is this bare line, as it stands, valid Python (`rec = 'x'`, `rec :d`, `rec ,`, `rec -x` …)?  Whether such a line is run as Python
    or as a command is decided by the names in scope — that decision belongs to C02 / C03, not to this property"""
    import ast
    import warnings

    try:
        with warnings.catch_warnings():
            warnings.simplefilter("ignore")
            tree = ast.parse(src)
    except (SyntaxError, ValueError):
        return False
    return bool(tree.body)


NONIDENT_WORDCHAR = re.compile(r"(?![0-9])\w")


def degarble(text):
    """replace every character that matches \\w but cannot start an identifier (and is no ASCII digit) by `z`"""
    return "".join("z" if NONIDENT_WORDCHAR.match(c) and not c.isidentifier() else c for c in text)


def degarbled_atoms(atoms):
    out = []
    for a in atoms:
        if a["k"] in ("word", "macroat"):
            out.append(dict(a, t=codes(degarble(uncodes(a["t"])))))
        elif a["k"] == "adj":
            out.append(dict(a, parts=[[p[0], codes(degarble(uncodes(p[1])))] + p[2:] if p[0] in ("t", "m") else p for p in a["parts"]]))
        else:
            out.append(a)
    return out


def first_word_text(atoms):
    if not atoms:
        return ""
    a = atoms[0]
    if a["k"] == "word":
        return uncodes(a["t"])
    if a["k"] == "adj" and a["parts"][0][0] == "t":
        return uncodes(a["parts"][0][1])
    return ""


def word_texts(atoms):
    return [uncodes(a["t"]) for a in atoms if a["k"] == "word"] + [uncodes(p[1]) for a in atoms if a["k"] == "adj" for p in a["parts"] if p[0] == "t"]


def ws_errortoken(src):
    """does xonsh's tokenizer turn white space of this source into ERRORTOKENs the lexer mishandles — a TAB / FF, or two spaces in a
    row (it does so, one character at a time, when the next character is one it has no token for: a lone `$`, a non-identifier
    non-ASCII character …)?"""
    import io

    from xonsh.parsers.tokenize import ERRORTOKEN, tokenize

    prev_space_end = None
    try:
        # (not tolerant=True: xonsh's tokenizer loops for ever at EOF inside an unterminated f-string in tolerant mode)
        for t in tokenize(io.BytesIO((src + "\n").encode("utf-8", "surrogatepass")).readline, tolerant=False, is_subproc=True):
            if t.type == ERRORTOKEN and t.string in ("\t", "\f"):
                return True
            if t.type == ERRORTOKEN and t.string == " ":
                if prev_space_end == t.start:
                    return True
                prev_space_end = t.end
            else:
                prev_space_end = None
    except Exception:  # noqa: BLE001  (TokenError at an unterminated literal: nothing found up to there)
        return False
    return False


def lexer_unexpected(src):
    """does xonsh's lexer answer `Unexpected token: …` for some token of this source (a run of \\w characters that starts with one
    that is neither an identifier start nor an ASCII digit: superscripts, vulgar fractions, non-ASCII digits, circled numbers)?"""
    from xonsh.parsers.lexer import Lexer

    try:
        lx = Lexer()
        lx.input(src)
        return any(t.type == "ERRORTOKEN" and str(t.value).startswith("Unexpected token:") for t in lx)
    except Exception:  # noqa: BLE001
        return False


def extend_atom(a):
    return a["k"] in ("inject", "adj") or (a["k"] == "word" and "*" in uncodes(a["t"]))


def run_command(ctx, ses, stream, idx, atoms, bang, cmd, form, note=None, sep=None):
    """write the command, run it for real, compare with the Lean model (correspondence) and with what was written (property)"""
    b = Builder(ctx, ses)
    if sep is None:
        sep = ctx.rng.choice([None, None, " ", " "])
    state = ctx.rng.getstate()
    src, bang_lbb = build_source(b, cmd, atoms, bang, form, sep=sep)
    if form == "bare" and python_statement(src):
        # the line is also valid Python (the Python / subprocess decision is C02 / C03's): write the command explicitly
        form = "!["
        ctx.rng.setstate(state)
        b = Builder(ctx, ses)
        src, bang_lbb = build_source(b, cmd, atoms, bang, form, sep=sep)
    blob = "\x00".join(atom_blob(a) for a in atoms) + "\x00" + (bang or "")
    ors = [atom_oracle(a) for a in atoms]
    res = ses.run(src + "\n", b.glbs)
    case = {"stream": stream, "source": src, "cmd": cmd, "form": form, "sep": sep, "atoms": atoms, "bang": bang, "vars": {k: repr(v) for k, v in b.glbs.items()}}
    if note:
        case["note"] = note
    kinds = "+".join(sorted({a["k"] for a in atoms})) + ("+bang" if bang is not None else "")
    ctx.count(f"form/{form}")
    ctx.count(f"cmd/{cmd}")
    for a in atoms:
        ctx.count(f"atom/{a['k']}" + ("/raw" if a.get("raw") else "") + ("/f" if a.get("f") else ""))
    nontriv = any(a["k"] != "word" or has_special(uncodes(a["t"])) for a in atoms) or bang is not None
    ctx.case(stream, (idx, src), nontriv, {"source": src[:160], "kinds": kinds})
    faithful = call_model(ctx, ses, atoms, bang, bang_lbb, blob)
    if faithful is None:
        ctx.count("model/literal-outside-model")
        return None
    which = 1 if cmd == "xvargv" else 0
    m_mine = "crash" if faithful == "crash" else faithful[which]
    lb_in_macro = any(chr(c) in t for t in macro_texts(atoms, bang) for c in LB)
    # ---- what the PROPERTY says (recomputed after a re-run: the glob oracle is what that run recorded)
    def compute_want():
        if all(o[0] == "exact" for o in ors):
            w = [x for o in ors for x in o[1]] + ([bang.strip()] if bang is not None else [])
            return ([x.replace("\0", "\\0") for x in w] if cmd == "xvargv" else w), "written"
        if lb_in_macro:
            return None, "documented"  # (not generated together with expansions)
        # documented expansion is involved: the Lean spec gives the value, with (i) values injected into a word opaque, (ii) the macro
        # tail simply appended (stripped), (iii) raw f-strings only substituting braces
        patoms = [dict(a, lbb=False) if a["k"] == "macroat" else a for a in protected_atoms(atoms)]
        spec = call_model(ctx, ses, patoms, None, False, blob, keeps=True)
        w = ["".join(UNPROTECT.get(c, c) for c in x) for x in spec[which]]
        if bang is not None:
            w.append(bang.strip().replace("\0", "\\0") if cmd == "xvargv" else bang.strip())
        return w, "documented"

    want, basis = compute_want()
    ctx.count("oracle/verbatim" if basis == "written" else "oracle/lean-spec")

    def ok(argv, w=None):
        w = want if w is None else w
        return w is None or argv == w

    def rerun(form2, sep2, atoms2=None, bang2=False):
        """does the same command, written with form2 / sep2 (/ atoms2), have no UNEXPLAINED failure (it may still show other known
        findings: removing this trigger must explain the rest)?"""
        import copy

        if getattr(ctx, "depth", 0) >= 2:
            return False
        q = Quiet(ctx)
        run_command(q, ses, "variant", 0, copy.deepcopy(atoms if atoms2 is None else atoms2), bang if bang2 is False else bang2, cmd, form2, sep=sep2)
        return not any(f["key"] is None for f in q.spec_failures) and not q.disagreements

    def fail(observed, why):
        key = None
        argv = observed.get("argv")
        if m_mine == "crash":
            # the faithful model says the parser raises here
            if is_open("macro-tail-after-extend-crashes") and observed.get("exception") == "AttributeError" and bang is not None and any(extend_atom(a) for a in atoms):
                key = "macro-tail-after-extend-crashes"
        elif argv is not None and argv == m_mine:
            # the faithful model predicts exactly this wrong answer: which modelled mechanism is it?
            if is_open("adjacent-inject-reinterpreted") and any(o[0] == "adjacent" and o[2] for o in ors):
                key = "adjacent-inject-reinterpreted"
            elif is_open("macro-text-cut-at-line-boundary") and (bang_lbb or lb_in_macro or any(a.get("lbb") for a in atoms)):
                key = "macro-text-cut-at-line-boundary"
            elif is_open("raw-fstring-expanded") and not FSTR_KEEPS_RAW[0] and any(a["k"] == "lit" and a["raw"] and a["f"] and has_special(lit_value(a)) for a in atoms):
                key = "raw-fstring-expanded"
        if key is None and form == "bare" and (source_has_raw(src, LB) or ("\n" in src and "\\" in src)) and not lb_in_macro:
            # a bare-line finding only when the same command inside ![ ] delivers exactly what is wanted: the argument machinery is
            # right, the execer's line rewriting is at fault
            k2 = "bare-line-splitlines-breaks-literal" if source_has_raw(src, LB) else "bare-line-continuation-inside-literal"
            if is_open(k2) and rerun("![", " "):
                key = k2
        if key is None and is_open("bare-line-hash-inside-word") and form == "bare" and any("#" in t[1:] for t in word_texts(atoms) + macro_texts(atoms, bang)) and rerun("![", " "):
            key = "bare-line-hash-inside-word"
        if key is None and is_open("bare-line-first-word-python-punctuation") and form == "bare" and re.search(r"[,:=]", first_word_text(atoms)) and rerun("![", " "):
            key = "bare-line-first-word-python-punctuation"
        if key is None and is_open("bare-line-trailing-unicode-space") and form == "bare" and src.rstrip(" \t")[-1:].isspace() and rerun("![", " "):
            key = "bare-line-trailing-unicode-space"
        if key is None and is_open("bare-line-macro-text-chain-token") and form == "bare" and any(re.search(r";|&&|\|\|", t) for t in macro_texts(atoms, bang)) and rerun("![", " "):
            key = "bare-line-macro-text-chain-token"
        if key is None and is_open("whitespace-run-before-untokenizable-char") and ws_errortoken(src) and rerun(form, " "):
            # the same command with spaces for the tabs delivers what is wanted, and the tokenizer did turn a tab into an ERRORTOKEN
            key = "whitespace-run-before-untokenizable-char"
        if key is None and is_open("raw-fstring-backslash-handling"):
            import copy

            hit, atoms2 = False, []
            for a in atoms:
                if a["k"] == "lit" and a["raw"] and a["f"] and any(p["p"] == "t" and re.search(r"\\[\n" + QUOTES[a["q"]][0] + "]", uncodes(p["body"])) for p in a["parts"]):
                    a2 = copy.deepcopy(a)
                    a2["raw"], a2["prefix"] = False, "f"
                    for p in a2["parts"]:
                        p.pop("body", None)
                    a2 = _rerender(ctx, a2)
                    hit = True
                    atoms2.append(a2)
                else:
                    atoms2.append(a)
            if hit and rerun(form, sep, atoms2):
                key = "raw-fstring-backslash-handling"
        if key is None and is_open("continuation-comment-strip-inside-literal"):
            import copy

            hit, atoms2 = False, []
            for a in atoms:
                a2 = a
                if a["k"] == "lit" and a["raw"] and a["q"] in ("s1", "d1"):
                    a2 = copy.deepcopy(a)
                    for p in a2["parts"]:
                        if p["p"] == "t" and re.search(r"\\\n[ \t]*#", uncodes(p["body"])):
                            v = re.sub(r"(\\\n[ \t]*)#", r"\1z", uncodes(p["value"]))
                            p["value"] = p["body"] = codes(v)
                            hit = True
                atoms2.append(a2)
            if hit and rerun(form, sep, atoms2):
                key = "continuation-comment-strip-inside-literal"
        if key is None and is_open("word-with-nonidentifier-wordchar-garbled") and lexer_unexpected(src) and rerun(form, sep, degarbled_atoms(atoms), None if bang is None else degarble(bang)):
            # the same command with those characters replaced by a letter has no unexplained failure
            key = "word-with-nonidentifier-wordchar-garbled"
        ctx.spec_failure(case, observed, why, key)
        return key

    outside_model = ("bare-line-splitlines-breaks-literal", "bare-line-continuation-inside-literal", "whitespace-run-before-untokenizable-char",
                     "bare-line-macro-text-chain-token", "bare-line-hash-inside-word", "bare-line-trailing-unicode-space",
                     "bare-line-first-word-python-punctuation",
                     "word-with-nonidentifier-wordchar-garbled", "raw-fstring-backslash-handling", "continuation-comment-strip-inside-literal")
    if res[0] != "ok":
        key = fail({"exception": res[1], "message": res[2]}, "a well-formed command was not run: its arguments never arrived")
        if m_mine != "crash" and key not in outside_model:
            ctx.disagree(stream, case, {"exception": res[1]}, m_mine)
        return None
    got_all = res[2] if cmd == "xvargv" else res[1]
    if len(got_all) != 1:
        key = fail({"runs": got_all}, "the command did not run exactly once")
        if key not in outside_model:
            ctx.disagree(stream, case, got_all, [m_mine])
        return None
    got = got_all[0]
    key = "ok"
    if not ok(got):
        key = fail({"argv": got, basis: want}, "the arguments that arrived are not the ones written" if basis == "written"
                   else "the arguments that arrived are not the documented expansion of what was written")
    # correspondence with the faithful model (the bare-line / tab findings live in the execer and the lexer, outside the model)
    if got != m_mine and key not in outside_model:
        ctx.disagree(stream, case, got, m_mine)
    return got


def source_has_raw(src, chars):
    return any(chr(c) in src for c in chars)


class Quiet:
    """a context that records nothing in the evidence: used to re-run variants of a failing command while shrinking it"""

    def __init__(self, ctx):
        self.driver, self.rng = ctx.driver, ctx.rng
        self.depth = getattr(ctx, "depth", 0) + 1
        self.spec_failures, self.disagreements = [], []

    def count(self, *a, **k):
        pass

    def case(self, *a, **k):
        pass

    def spec_failure(self, case, observed, why, key=None):
        self.spec_failures.append({"case": case, "observed": observed, "why": why, "key": key})

    def disagree(self, stream, case, impl, model):
        self.disagreements.append({"case": case, "impl": impl, "model": model})


def _shorter_codes(cs):
    n = len(cs)
    for size in (max(1, n // 2), max(1, n // 4), 1):
        for i in range(0, n, size):
            yield cs[:i] + cs[i + size:]


def _rerender(q, a):
    """write a shrunk literal the plain way (no optional escapes, same prefix / quotes)"""
    for p in a["parts"]:
        if p["p"] == "t":
            if a["raw"] and not a["f"]:
                if not q.driver.call("c04.rawok", Sym(a["q"]), p["value"]):
                    return None
                p["body"] = list(p["value"])
            elif a["raw"]:
                return None
            else:
                p["body"] = q.driver.call("c04.render", a["f"], bool(a.get("rawnl")), [c in LB and not a.get("lb_raw") for c in p["value"]], p["value"])
    return a


def atom_variants(q, a):
    import copy

    k = a["k"]
    if k in ("word", "macroat"):
        for t in _shorter_codes(a["t"]):
            if word_ok(uncodes(t)) if k == "word" else macro_ok(uncodes(t), allow_nl=True):
                yield dict(a, t=t)
    elif k == "lit":
        for i, p in enumerate(a["parts"]):
            if len(a["parts"]) > 1:
                b = copy.deepcopy(a)
                del b["parts"][i]
                yield b
            if p["p"] == "t":
                for v in _shorter_codes(p["value"]):
                    b = copy.deepcopy(a)
                    b["parts"][i]["value"] = v
                    b = _rerender(q, b)
                    if b is not None:
                        yield b
    elif k == "inject":
        v = a["val"]
        if v[0] in ("list", "tuple", "gen"):
            for i in range(len(v[1])):
                yield dict(a, val=[v[0], v[1][:i] + v[1][i + 1:]])
            if len(v[1]) == 1:
                yield dict(a, val=v[1][0])
        if v[0] == "str":
            for t in _shorter_codes(v[1]):
                yield dict(a, val=["str", t])
        if a["form"] == "inline":
            yield dict(a, form="var")
    elif k == "adj":
        ps = a["parts"]
        for i in range(len(ps)):
            rest = ps[:i] + ps[i + 1:]
            if len(rest) >= 2 and any(p[0] != "t" for p in rest) and not any(x[0] == "t" and y[0] == "t" for x, y in zip(rest, rest[1:])):
                yield dict(a, parts=rest)
        for i, p in enumerate(ps):
            if p[0] in ("t", "m"):
                for t in _shorter_codes(p[1]):
                    if (word_ok(uncodes(t)) and not re.search(r"['\"]", uncodes(t))) if p[0] == "t" else macro_ok(uncodes(t), allow_nl=True):
                        yield dict(a, parts=ps[:i] + [[p[0], t] + p[2:]] + ps[i + 1:])
            elif p[1][0] == "str":
                for t in _shorter_codes(p[1][1]):
                    yield dict(a, parts=ps[:i] + [["i", ["str", t], p[2]]] + ps[i + 1:])


def shrink_command(ctx, ses, atoms, bang, cmd, form, sep, want_key=None, budget=400):
    """smallest variant (fewer atoms, shorter strings, single-space separators) that still fails with the same classification"""
    import copy

    def still(at, bg, sp):
        q = Quiet(ctx)
        try:
            run_command(q, ses, "shrink", 0, copy.deepcopy(at), bg, cmd, form, sep=sp)
        except Exception:  # noqa: BLE001
            return False
        return any(f["key"] == want_key for f in q.spec_failures)

    q = Quiet(ctx)
    if sep != " " and still(atoms, bang, " "):
        sep = " "
    changed = True
    while changed and budget > 0:
        changed = False
        for i in range(len(atoms)):
            cand = atoms[:i] + atoms[i + 1:]
            budget -= 1
            if (cand or bang is not None) and still(cand, bang, sep):
                atoms, changed = cand, True
                break
        if changed:
            continue
        if bang is not None:
            budget -= 1
            if atoms and still(atoms, None, sep):
                bang, changed = None, True
                continue
            for t in _shorter_codes(codes(bang)):
                budget -= 1
                if macro_ok(uncodes(t), allow_nl=form != "bare") and still(atoms, uncodes(t), sep):
                    bang, changed = uncodes(t), True
                    break
            if changed:
                continue
        for i, a in enumerate(atoms):
            for v in atom_variants(q, a):
                budget -= 1
                if budget <= 0:
                    break
                if still(atoms[:i] + [v] + atoms[i + 1:], bang, sep):
                    atoms, changed = atoms[:i] + [v] + atoms[i + 1:], True
                    break
            if changed or budget <= 0:
                break
    return atoms, bang, sep


def gen_command(ctx, ses, popen_ok, kinds, max_atoms=5, allow_bang=True):
    b = Builder(ctx, ses)
    rng = ctx.rng
    n = rng.choice([1, 1, 2, 2, 3, 3, 4, max_atoms])
    atoms = [gen_atom(b, popen_ok, kinds) for _ in range(n)]
    if rng.random() < 0.12:
        atoms = []
    form = rng.choice(FORMS)
    bang = None
    if allow_bang and rng.random() < 0.22:
        bang = gen_macro_text(rng, "]" if form in ("![", "$[") else (")" if form == "$(" else None))
        # a subprocess macro needs at least the command; the text must not close the enclosing bracket
        while form != "bare" and re.search(r"[\[\](){}]", bang):
            bang = re.sub(r"[\[\](){}]", "", bang)
            if not macro_ok(bang):
                bang = gen_macro_text(rng, None)
    if form != "bare":
        # inside brackets a macro text may run over several physical lines
        if bang is not None and rng.random() < 0.4:
            bang = multiline_macro(rng, bang)
        for a in atoms:
            if a["k"] == "macroat" and rng.random() < 0.3:
                a["t"] = codes(multiline_macro(rng, uncodes(a["t"])))
            elif a["k"] == "adj":
                for p in a["parts"]:
                    if p[0] == "m" and rng.random() < 0.3:
                        p[1] = codes(multiline_macro(rng, uncodes(p[1])))
    if bang is not None and any(extend_atom(a) for a in atoms) and "macro-tail-after-extend-crashes" in OPEN_KEYS and rng.random() < 0.95:
        bang = None  # (a macro tail after an extend atom is the known parser crash: keep a few, not hundreds)
    if bang is None and not atoms:
        atoms = [gen_atom(b, popen_ok, kinds)]
    # multi-line literals inside $( ) / $[ ] / ![ ] are fine; a raw newline outside quotes never occurs
    return atoms, bang, form


KINDS_MAIN = {"word": 30, "lit": 40, "inject": 18, "macroat": 4, "adj": 8}


def stream_commands(ctx, ses, n, name="commands"):
    ctx.stream_rule(
        name,
        "random commands of 1-5 atoms (bare words incl. $NAME / tilde / glob / quotes-that-stay / non-ASCII; string literals plain / r / f / fr "
        "in four quote styles whose bodies come from the Lean renderer with random extra hex escapes and raw newlines in triple quotes; "
        "@(expr) with str / bytes / int / None / list / tuple / generator values given as variables or as inline Python; @!(text); words "
        "with @() glued in; optional macro tail) written as a bare line or inside ![ ] / $[ ] / $( ), run through the real Execer.exec with a "
        "recording callable alias (threadable and unthreadable); argv compared with the Lean cliargs and with what was written; "
        "non-trivial = anything but plain words",
    )
    for i in range(n):
        if ctx.enough_failures():
            break
        atoms, bang, form = gen_command(ctx, ses, False, KINDS_MAIN)
        run_command(ctx, ses, name, i, atoms, bang, ctx.rng.choice(["rec", "rec", "recu"]), form)


def stream_child(ctx, ses, n, name="real-child"):
    ctx.stream_rule(
        name,
        "the same generator restricted to strings the OS can carry (no lone surrogates outside U+DC80..DCFF; NUL allowed: Popen gets "
        "backslash-zero as modelled), run with BOTH the recording alias and a real executable (#!python script writing json.dumps(sys.argv[1:])): "
        "each argv is compared with the model (cliargs / popenArgv), with what was written, and the two with each other",
    )
    for i in range(n):
        if ctx.enough_failures():
            break
        while True:
            atoms, bang, form = gen_command(ctx, ses, True, KINDS_MAIN)
            if fs_ok("\x00".join(atom_blob(a) for a in atoms)):
                break
        before = len(ctx.spec_failures)
        sep = ctx.rng.choice([None, " "])
        g1 = run_command(ctx, ses, name, (i, "alias"), atoms, bang, "rec", form, sep=sep)
        g2 = run_command(ctx, ses, name, (i, "child"), atoms, bang, "xvargv", form, sep=sep)
        # (when either run already failed the property — a known finding, say — the two sources differ by more than the command name)
        if len(ctx.spec_failures) == before and g1 is not None and g2 is not None and [x.replace("\0", "\\0") for x in g1] != g2:
            b = Builder(ctx, ses)
            ctx.spec_failure({"stream": name, "source": build_source(b, "rec|xvargv", atoms, bang, form, sep=" ")[0], "cmd": "xvargv", "form": form, "atoms": atoms, "bang": bang},
                             {"alias": g1, "child": g2}, "a callable alias and a real child process observed different argv", None)


def stream_known_mechanisms(ctx, ses, n, name="line-boundary-characters"):
    ctx.stream_rule(
        name,
        "directed at the open findings: literals / injected inline values / macro text holding a raw U+000B U+000C U+001C-1E U+0085 U+2028 "
        "U+2029, and literals holding backslash + raw newline, as bare lines and inside ![ ]; every failure must be exactly one of the known "
        "mechanisms (trigger present AND the explicit ![ ] form delivers what was written / the model's faithful macro slice predicts the "
        "observation), anything else is a new violation",
    )
    rng = ctx.rng
    for i in range(n):
        if ctx.enough_failures():
            break
        b = Builder(ctx, ses)
        r = rng.random()
        form = rng.choice(["bare", "bare", "!["])
        bang = None
        if r < 0.45:
            v = "".join(rng.choice(["a", "b", " ", chr(rng.choice(LB)), "'", "x"]) for _ in range(rng.randint(1, 6)))
            a = render_lit(b, {"k": "lit", "raw": rng.random() < 0.4, "f": False, "q": rng.choice(list(QUOTES)), "prefix": None,
                               "parts": [{"p": "t", "value": codes(v)}], "lb_raw": True})
            atoms = [{"k": "word", "t": codes("w")}, a]
        elif r < 0.8:
            q = rng.choice(["s3", "d3", "s1", "d1"])
            v = rng.choice(["a\\\nb", "\\\n", "x\\\\\ny", "c\\\n\\\nd", "e\\\n'f"])
            raw = rng.random() < 0.6
            ok = ctx.driver.call("c04.rawok", Sym(q), codes(v)) if raw else q in ("s3", "d3")
            if not ok:
                continue
            body = codes(v) if raw else ctx.driver.call("c04.render", False, True, [], codes(v))
            atoms = [{"k": "lit", "raw": raw, "f": False, "q": q, "prefix": "r" if raw else "", "parts": [{"p": "t", "value": codes(v), "body": body}], "lb_raw": True},
                     {"k": "word", "t": codes("z")}]
        else:
            form = "!["
            t = gen_macro_text(rng, "]", lb=True)
            t = re.sub(r"[\[\](){}]", "", t)
            if not macro_ok(t.strip(" ")):
                continue  # (removing the brackets can leave a ` #` comment or an unpaired quote behind)
            if rng.random() < 0.5:
                atoms, bang = [{"k": "word", "t": codes("w")}], t
            else:
                atoms = [{"k": "macroat", "t": codes(t)}, {"k": "word", "t": codes("z")}]
        run_command(ctx, ses, name, i, atoms, bang, "rec", form)


LEXER_MESSAGES = re.compile(r'EOF in multi-line|Unmatched "[)\]}]" at line|" at \(\d+, \d+\) ends "')
TRIPLE = ('"' * 3, "'" * 3)


def pure_message(x):
    """is this argument nothing but a message of the lexer (they are appended at the end of the line's tokens)?"""
    return x.startswith("EOF in multi-line") or re.fullmatch(r'Unmatched "[(\[{]" at line \d+, column \d+', x) is not None


def unmessage(x):
    """an argument with the lexer's message about a closing bracket (which stands where the bracket was, glued to its word) undone"""
    x = re.sub(r'Unmatched "([)\]}])" at line \d+, column \d+', r"\1", x)
    return re.sub(r'"([)\]}])" at \(\d+, \d+\) ends "[^"]*" at \(\d+, \d+\) \(expected "[^"]*"\)', r"\1", x)


def stream_captured(ctx, ses, n, name="captured-output-as-argument"):
    ctx.stream_rule(
        name,
        "`rec pre @$(emit) post` and `rec pre $(emit) post` where `emit` is a callable alias printing a generated text: 0-5 lines of tokens "
        "(* $NAME ~ quotes ; | > && || brackets with blanks inside, $( ) @( ), ` # comment`, Windows-like paths) with lines ENDING IN "
        "BACKSLASHES, leading indentation that steps up and inconsistently down, blank lines, tabs, CRLF / FF / U+2028 line ends, no final "
        "newline, a few NFKC-sensitive and unbalanced-bracket lines. Contract (Lean capturedInject + theorem C04_captured_inject_per_line): the "
        "arguments are the concatenation of what Lexer.split answers for EACH line on its own - compared with the model fed with the "
        "session's per-line answers (joining lines is a disagreement) - and the property oracle: the white-space separated tokens of the "
        "output verbatim (str.split for lines without quotes / comments); $() exactly one argument holding the output; nothing globbed or "
        "expanded. non-trivial = several lines, or a glob / expansion character, quote, backslash or indentation",
    )
    rng = ctx.rng
    toks = ["a", "b1", "*", "*.py", "p*", "$XV_A", "$XV_STAR", "~", "~/x", "a=~", "-x", "--k=v", "\u00e9", "\U0001d11e", "x;y", "|", ">", "&&", "||", "&", "[ab]", "?", "a\\b",
            "$(ls)", "@(1)", "{}", "!", "C:\\dir\\sub", "\\\\host\\share", "[a b]", "(x y)", "{k: v}", "f(1, 2)", "a[1 2]b", "x#y", "1.5e3", "0x1F", "and", "or", "not", "if x:", "\u4e2d"]
    rare = ["\ufb01le.txt", "x\u00b2", "\u00aa", "(b", "[c", TRIPLE[0] + "d", "e)", TRIPLE[1]]
    for i in range(n):
        if ctx.enough_failures():
            break
        nlines = rng.choice([0, 1, 1, 2, 2, 3, 3, 4, 5])
        indent_mode = rng.choice(["none", "none", "up", "down", "zigzag", "tabs"])
        lines = []
        for k in range(nlines):
            if rng.random() < 0.08:
                lines.append(rng.choice(["", "  ", "\t"]))  # a blank line
                continue
            ws = []
            for _ in range(rng.randint(1, 4)):
                r = rng.random()
                if r < 0.08:
                    ws.append(rng.choice(['"b c"', "'q  r'", '"$XV_A"', "'*'", '"a\\\\"', "'#'"]))
                elif r < 0.11:
                    ws.append(rng.choice(rare))
                else:
                    ws.append(rng.choice(toks))
            line = rng.choice([" ", " ", "  ", "\t"]).join(ws)
            if rng.random() < 0.07:
                line += rng.choice([" # c", "  # (x", " #"])
            if rng.random() < 0.25:
                line += "\\" * rng.choice([1, 1, 2])  # a backslash at the END of the line: text, not a continuation
            ind = {"none": 0, "up": k, "down": 2 * (nlines - k) - 1, "zigzag": [4, 2, 3, 1, 5, 0][k % 6], "tabs": 0}[indent_mode]
            line = ("\t" * (k % 3) if indent_mode == "tabs" else " " * ind) + line
            if rng.random() < 0.05:
                line += rng.choice([" ", "  "])
            lines.append(line)
        nl = rng.choice(["\n", "\n", "\n", "\n", "\r\n", "\x0c", "\u2028"])
        text = nl.join(lines) + (nl if lines and rng.random() < 0.85 else "")
        check_captured(ctx, ses, name, i, text)


def check_captured(ctx, ses, name, i, text, *_ignored):
    import unicodedata

    lexer = ses.XSH.execer.parser.lexer
    ses.emit_text = text
    lines = text.splitlines()
    per, table, raised = [], [], False
    for l in lines:
        try:
            t = lexer.split(l)
        except Exception:  # noqa: BLE001  (then the whole injection may raise: nothing to compare)
            t, raised = [], True
        per.append(t)
        table.append([codes(l), [codes(x) for x in t]])
    m = ctx.driver.call("c04.captured", codes(text), table)
    m_toks, m_lines = [uncodes(x) for x in m[0]], [uncodes(x) for x in m[1]]
    nontriv = len(lines) > 1 or any(c in text for c in "*$~'\"\\") or any(l[:1] in (" ", "\t") for l in lines)
    for op in ("@$(", "$("):
        src = f"rec pre {op}emit) post"
        r = ses.run(src + "\n", {})
        case = {"stream": name, "source": src, "emit_output": text}
        ctx.case(name, (i, op, text), nontriv, {"source": src, "emit_output": text[:80]})
        if op == "@$(" and m_lines != lines:
            ctx.disagree(name, case | {"what": "str.splitlines"}, lines, m_lines)
        if r[0] != "ok" or len(r[1]) != 1:
            if op == "@$(" and raised:
                ctx.count("captured/per-line-split-raises")
                continue
            ctx.spec_failure(case, {"result": r[:2]}, "a command with a captured-output argument did not run exactly once", None)
            if op == "@$(":
                ctx.disagree(name, case, r[:2], m_toks)
            continue
        got = r[1][0]
        if op == "$(":
            norm = text.replace("\r\n", "\n").rstrip("\n")
            if not (len(got) == 3 and got[0] == "pre" and got[2] == "post" and got[1].replace("\r\n", "\n").rstrip("\n") == norm):
                ctx.spec_failure(case, {"argv": got}, "$() as an argument is not exactly one argument holding the captured output", None)
            continue
        if got[:1] != ["pre"] or got[-1:] != ["post"] or len(got) < 2:
            ctx.spec_failure(case, {"argv": got}, "the arguments around @$() did not arrive", None)
            continue
        mid = got[1:-1]
        # (1) the contract: line by line
        if not raised and mid != m_toks:
            ctx.disagree(name, case, mid, m_toks)
        # (2) the property: the white-space separated tokens of the output, verbatim
        want = []
        for l, t in zip(lines, per):
            plain_line = not re.search(r"['\"]|(^|\s)#", l)
            want += l.split() if plain_line else [unmessage(x) for x in t if not pure_message(x)]
        if mid != want:
            key = None
            nf = lambda x: unicodedata.normalize("NFKC", x)  # noqa: E731
            core = [unmessage(x) for x in mid if not pure_message(x)]  # the arguments without the lexer's messages
            has_msg = core != mid
            nfkc_only = core != want and "".join(core) == "".join(nf(x) for x in want) and nf(text) != text
            if mid == m_toks and (not has_msg or is_open("captured-inject-lexer-error-text")) and \
                    (core == want or (has_msg and "".join(core) == "".join(want)) or (nfkc_only and is_open("captured-inject-nfkc-normalised"))):
                # exactly the per-line answers of Lexer.split; they differ from the tokens of the output only by the lexer's error messages (a
                # message is longer than the bracket it replaces, so the rest of that word comes loose: compared without blanks then)
                # and / or by NFKC normalisation (and the re-split it causes): both known artefacts
                if has_msg:
                    key = "captured-inject-lexer-error-text"
                elif nfkc_only:
                    key = "captured-inject-nfkc-normalised"
            ctx.spec_failure(case, {"argv": got, "tokens_of_the_output": want}, "@$() did not deliver the white-space separated tokens of the captured output verbatim", key)


def bracket_merge(words):
    """the words with everything from a word holding an unmatched `[` up to the word that closes it glued together without the blanks"""
    out, depth, cur = [], 0, ""
    for w in words:
        cur += w
        depth += w.count("[") - w.count("]")
        if depth <= 0:
            out.append(cur)
            cur, depth = "", 0
    return out + ([cur] if cur else [])


def check_bracket_source(ctx, ses, name, i, src):
    """a command line of plain words, some of them inside [ ... ] with blanks: every white-space separated word is one argument"""
    r = ses.run(src + "\n", {})
    want = src.split()[1:]
    case = {"stream": name, "source": src}
    ctx.case(name, (i, src), True, {"source": src})
    got = r[1][0] if r[0] == "ok" and len(r[1]) == 1 else None
    if got != want:
        key = None
        if is_open("bracket-word-swallows-blanks") and got is not None and got == bracket_merge(want) and "[" in src:
            key = "bracket-word-swallows-blanks"
        ctx.spec_failure(case, {"argv": got} if got is not None else {"result": r[:2]}, "the white-space separated words of the command are not its arguments", key)


def stream_brackets(ctx, ses, n, name="blanks-inside-brackets"):
    ctx.stream_rule(
        name,
        "directed at one open finding: `rec` followed by plain words, one or two of them a [ ... ] group with blanks inside (`[a b]`, `a[1 2]b`, "
        "`[ x ]`, nested); oracle = str.split of the line; a failure is the known mechanism only when the observed argv is exactly the words "
        "with each bracket group glued together without its blanks",
    )
    rng = ctx.rng
    for i in range(n):
        if ctx.enough_failures():
            break
        ws = []
        for _ in range(rng.randint(1, 4)):
            if rng.random() < 0.45:
                inner = rng.choice([" ", "  ", "\t"]).join(rng.choice(["a", "b2", "1", "-x", "c.d", "é"]) for _ in range(rng.randint(1, 3)))
                ws.append(rng.choice(["", "a", "x="]) + "[" + rng.choice(["", " "]) + inner + rng.choice(["", " "]) + "]" + rng.choice(["", "b", ".txt"]))
            else:
                ws.append(rng.choice(["w", "-n", "a.b", "k=v", "7"]))
        check_bracket_source(ctx, ses, name, i, "rec " + " ".join(ws))


# ============================================================================ direct function correspondences
def stream_literals(ctx, n, name="literal-evaluation"):
    ctx.stream_rule(
        name,
        "escape soup: random literal bodies over backslashes, quotes, digits, x/u/U/N, braces, newlines, CR, non-ASCII, in 4 quote styles, "
        "raw and not: Lean evalBody against CPython's ast.literal_eval (the definition of a literal's value) whenever the text is one STRING "
        "token; plus the round trip evalBody(render(s)) = s = CPython on generated values; non-trivial = the body has a backslash or quote",
    )
    import ast
    import io
    import tokenize
    import warnings

    warnings.simplefilter("ignore")
    rng = ctx.rng
    alpha = list("\\\\\\\\''\"\"nrtxuUN01789abfAF{} \n\t\r\u00e9\U0001d11e#$~*")

    def single(lit):
        lit = lit.replace("\r\n", "\n").replace("\r", "\n")  # (the compiler reads source with universal newlines; the tokenize module does not)
        try:
            toks = [t for t in tokenize.generate_tokens(io.StringIO(lit).readline) if t.type not in (tokenize.NEWLINE, tokenize.ENDMARKER, tokenize.NL)]
        except Exception:  # noqa: BLE001
            return False
        return len(toks) == 1 and toks[0].type == tokenize.STRING and toks[0].string == lit

    for i in range(n):
        q = rng.choice(list(QUOTES))
        raw = rng.random() < 0.3
        if i % 3 == 0:
            s = gen_value(rng, nul=True, lone=True, lb=True)
            raw_nl = q in ("s3", "d3") and rng.random() < 0.5
            body = uncodes(ctx.driver.call("c04.render", False, raw_nl, [rng.random() < 0.1 for _ in s], codes(s)))
            raw = False
            want_rt = s
        else:
            body = "".join(rng.choice(alpha) for _ in range(rng.randint(0, 10)))
            want_rt = None
        lit = ("r" if raw else "") + QUOTES[q] + body + QUOTES[q]
        try:
            v = ast.literal_eval(lit)
            v = v if isinstance(v, str) else None
        except Exception:  # noqa: BLE001
            v = None
        m = ctx.driver.call("c04.eval", raw, False, Sym(q), codes(body))
        m = None if m is None else uncodes(m[1])
        ctx.case(name, (i, lit), "\\" in body or "'" in body or '"' in body, {"literal": lit[:80]})
        ctx.count("literal/" + ("roundtrip" if want_rt is not None else ("model-some" if m is not None else "model-none")))
        # (a body that begins with two quote characters turns a single-quoted literal into a triple-quoted one: a different literal)
        restyled = q in ("s1", "d1") and body.startswith(QUOTES[q] * 2)
        bad = (m is not None and m != v) or (m is None and v is not None and single(lit) and "\\N" not in body and not restyled)
        if want_rt is not None and m != want_rt:
            bad = True
        if bad:
            ctx.disagree(name, {"stream": name, "literal": lit}, v, m)


def stream_expand(ctx, ses, n, name="expand-functions"):
    ctx.stream_rule(
        name,
        "xonsh.tools.expandvars and expand_path called directly on generated strings ($NAME set / unset / typed, ${'NAME'}, ${\"NAME\"}, the "
        "`{'` quirk, adjacent matches, values that contain `$`, non-ASCII names, tilde prefixes incl. a=~:~user), with $EXPAND_ENV_VARS and "
        "$XONSH_SUBPROC_ARG_EXPANDUSER on and off, against the Lean expandvars / expandPath; the Lean scan is also compared with CPython's "
        "`re` run on the translated pattern; non-trivial = the string has `$` or `~`",
    )
    import xonsh.tools as xt

    rng = ctx.rng
    pat = re.compile(xt.POSIX_ENVVAR_REGEX.pattern)
    for i in range(n):
        parts = []
        for _ in range(rng.randint(1, 4)):
            k = rng.random()
            parts.append(rng.choice(DOLLARS) if k < 0.4 else (rng.choice(TILDES) if k < 0.6 else gen_value(rng, maxlen=4)))
        s = "".join(parts) if rng.random() < 0.8 else rng.choice(["", "=", ":", "~", "$", "a=", "=~:~", "a=b=~", "~:~", "${'", "${'A", "${'A'", "$\u00e9\u0301x", "${'XV_A{'", "${'XV_A{'\u00e9"])
        ev, eu = rng.random() < 0.85, rng.random() < 0.85
        ses.env["EXPAND_ENV_VARS"], ses.env["XONSH_SUBPROC_ARG_EXPANDUSER"] = ev, eu
        try:
            got_v = xt.expandvars(s)
            got_p = xt.expand_path(s)
        finally:
            ses.env["EXPAND_ENV_VARS"], ses.env["XONSH_SUBPROC_ARG_EXPANDUSER"] = True, True
        m = ctx.driver.call("c04.expand", ses.envspec(s, ev, eu), codes(s))
        m_v, m_p, m_t = uncodes(m[0]), uncodes(m[1]), m[2]
        ref = pat.sub(lambda mo: (lambda v: mo.group(0) if v is None else v)(ses.env_value(mo.group("envvar"))), s)
        ctx.case(name, (i, s), "$" in s or "~" in s, {"s": s[:60]})
        if got_v != m_v or got_p != m_p:
            ctx.disagree(name, {"stream": name, "s": s, "EXPAND_ENV_VARS": ev, "XONSH_SUBPROC_ARG_EXPANDUSER": eu}, [got_v, got_p], [m_v, m_p])
        if ref != m_v:
            ctx.disagree(name, {"stream": name, "s": s, "what": "Lean scan vs re.sub on the translated pattern"}, ref, m_v)
        if "$" not in s and not m_t and got_p != s:
            ctx.spec_failure({"stream": name, "s": s}, {"expand_path": got_p}, "a string without `$` and without a tilde-prefix was changed by the expansion", None)


def stream_helpers(ctx, ses, n, name="runtime-helpers"):
    ctx.stream_rule(
        name,
        "list_of_strs_or_callables, list_of_list_of_strs_outer_product, SubprocSpec.resolve_args_list / _fix_null_cmd_bytes and str.strip "
        "called directly on generated values against injectList / outerProduct / resolveArgsList / fixNull / strip",
    )
    import xonsh.built_ins as bi
    from xonsh.procs.specs import SubprocSpec

    rng = ctx.rng
    for i in range(n):
        v = gen_pyval(rng, nul=True)
        sx, exp = pyval_sx(v)
        got = bi.list_of_strs_or_callables(pyval_obj(v))
        ctx.case(name, (i, "inject", repr(v)), True, {"value": repr(pyval_obj(v))[:80] if v[0] != "gen" else "generator"})
        if got != exp:
            ctx.spec_failure({"stream": name, "value": v}, {"list_of_strs_or_callables": got, "written": exp}, "@() does not deliver the value verbatim, one argument per element", None)
        m = ctx.driver.call("c04.cmd", ses.envspec(""), [], DOCUMENTED, [[Sym("inject"), sx]], None)
        if [uncodes(x) for x in m[1]] != got:
            ctx.disagree(name, {"stream": name, "value": v}, got, [uncodes(x) for x in m[1]])
        # resolve_args_list + _fix_null_cmd_bytes on a cmd with list-valued entries
        entries = [gen_value(rng, nul=True, maxlen=4) if rng.random() < 0.7 else [gen_value(rng, maxlen=3) for _ in range(rng.randint(0, 3))] for _ in range(rng.randint(1, 5))]
        spec = SubprocSpec.__new__(SubprocSpec)
        spec.cmd = [list(e) if isinstance(e, list) else e for e in entries]
        spec.resolve_args_list()
        flat = [x for e in entries for x in (e if isinstance(e, list) else [e])]
        ctx.case(name, (i, "resolve", repr(entries)), True)
        if spec.cmd != flat:
            ctx.spec_failure({"stream": name, "cmd": entries}, {"resolve_args_list": spec.cmd}, "resolve_args_list re-split or dropped arguments", None)
        spec._fix_null_cmd_bytes()
        if spec.cmd != [x.replace("\0", "\\0") for x in flat]:
            ctx.spec_failure({"stream": name, "cmd": entries}, {"_fix_null_cmd_bytes": spec.cmd}, "the Popen argv differs from the alias argv by more than the NUL escape", None)
        t = gen_macro_text(rng, None, lb=True) + rng.choice(["", "\x0c", "\u2003", "\x1f "])
        if uncodes(ctx.driver.call("c04.strip", codes(t))) != t.strip():
            ctx.disagree(name, {"stream": name, "strip": t}, t.strip(), uncodes(ctx.driver.call("c04.strip", codes(t))))


# ============================================================================ known findings
def replay_known(ctx, ses):
    for f in ctx.known:
        w = f["witness"]
        before = len(ctx.spec_failures)
        if "source" in w and "atoms" not in w:
            check_bracket_source(ctx, ses, "known-witness", f["key"], w["source"])
            mine = ctx.spec_failures[before:]
            ctx.replayed(f["key"], any(sf["key"] == f["key"] for sf in mine), mine[0]["observed"] if mine else None)
            continue
        if "emit_output" in w:
            t = w["emit_output"]
            check_captured(ctx, ses, "known-witness", f["key"], t)
            mine = ctx.spec_failures[before:]
            ctx.replayed(f["key"], any(sf["key"] == f["key"] for sf in mine), mine[0]["observed"] if mine else None)
            continue
        run_command(ctx, ses, "known-witness", f["key"], w["atoms"], w.get("bang"), w.get("cmd", "rec"), w["form"], note=f["key"], sep=w.get("sep", " "))
        mine = [sf for sf in ctx.spec_failures[before:]]
        still = any(sf["key"] == f["key"] for sf in mine)
        ctx.replayed(f["key"], still, mine[0]["observed"] if mine else None)


def translate(ctx):
    from translator import c04 as tr

    text, fps, errors = tr.generate(common.REPO)
    common.write_if_changed(common.module_path("XonshVerif.Gen.ArgTables"), text)
    ctx.fingerprints.update(fps)
    FSTR_KEEPS_RAW[0] = bool(fps.get("fstring_keeps_is_raw"))
    LINES_CUT_AT_LB[0] = bool(fps.get("lines_use_splitlines"))
    BANG_NEEDS_LIST[0] = bool(fps.get("bang_appends_to_elts"))
    ctx.translator_errors += errors
    ctx.trusted_base.append("translator/c04.py (regex pattern dump, atom-action / cliarg-action tables walked from the parser AST, glob trigger, NUL replacement, str.isspace table)")


def run(ctx):
    ctx.trusted_base += [
        "CPython: ast.literal_eval / eval as the definition of a literal's value, re's \\w, str(), os.fsdecode, os.path.expanduser + pwd",
        "harness xv/props/c04.py (generators, source writer, oracles recorded from the session: env values, passwd, glob answers)",
    ]
    ctx.assumptions += [
        "the lexer delimits a generated bare word as one word (tied by every command of the streams, not modelled)",
        "glob answers are an oracle recorded from the real run (the file system is not modelled)",
        "Popen / execve / the child's argv decoding carry every fs-encodable string unchanged (tied by the real-child stream)",
    ]
    ctx.explanation = (
        "Models lean/XonshVerif/Model/{PyStr,Expand,Args}.lean, theorems Props/C04.lean, tables Gen/ArgTables.lean regenerated from /repo. "
        "Proved for all inputs: literal round trip, raw verbatim, expansion identity, injection verbatim, word count/order, macro text, alias = "
        "Popen argv. Tied: generated atom lists -> source -> real Execer.exec (alias and real child). Searched only: lexer word splitting, "
        "bare-line rewriting, OS leg."
    )
    OPEN_KEYS.clear()
    OPEN_KEYS.update(f["key"] for f in ctx.known if f.get("status") == "open")
    ALL_OPEN[0] = set(OPEN_KEYS)
    ses = Session()
    try:
        replay_known(ctx, ses)
        stream_literals(ctx, ctx.n(20000, 300000))
        stream_expand(ctx, ses, ctx.n(8000, 120000))
        stream_helpers(ctx, ses, ctx.n(2500, 30000))
        stream_commands(ctx, ses, ctx.n(7000, 90000))
        stream_child(ctx, ses, ctx.n(500, 7000))
        stream_known_mechanisms(ctx, ses, ctx.n(150, 2000))
        stream_captured(ctx, ses, ctx.n(1200, 20000))
        stream_brackets(ctx, ses, ctx.n(60, 600))
    finally:
        ses.close()


def search(ctx, reason):
    ctx.extra["search_reason"] = reason
    ses = Session()
    try:
        stream_commands(ctx, ses, ctx.n(4000, 20000), name="search:commands")
        stream_child(ctx, ses, ctx.n(300, 1500), name="search:real-child")
        stream_expand(ctx, ses, ctx.n(4000, 20000), name="search:expand-functions")
    finally:
        ses.close()


def replay(ctx, path):
    r = json.loads(open(path).read())
    c = r["case"]
    if "atoms" not in c and "emit_output" not in c and c.get("stream") in ("blanks-inside-brackets", "known-witness") and "source" in c:
        translate(ctx)
        ALL_OPEN[0] = {f["key"] for f in ctx.known if f.get("status") == "open"}
        ses = Session()
        try:
            check_bracket_source(ctx, ses, "replay", 0, c["source"])
        finally:
            ses.close()
        bad = [f for f in ctx.spec_failures if f["key"] is None]
        for f in ctx.spec_failures:
            print("property failure:", f["why"], "| observed:", f["observed"], "| known finding:", f["key"])
        print(f"VIOLATION property={ID} replay={path}" if bad else "no new violation on this input")
        return common.EXIT_VIOLATION if bad else common.EXIT_OK
    if "emit_output" not in c and ("atoms" not in c or "form" not in c):
        print("this replay names a function-level case; re-run ./check C04 with the same seed")
        return common.EXIT_INFRA
    translate(ctx)  # (the model variant follows the source that is there now)
    ALL_OPEN[0] = {f["key"] for f in ctx.known if f.get("status") == "open"}
    ses = Session()
    try:
        if "emit_output" in c:
            t = c["emit_output"]
            got = check_captured(ctx, ses, "replay", 0, t)
        else:
            got = run_command(ctx, ses, "replay", 0, c["atoms"], c.get("bang"), c.get("cmd", "rec"), c["form"], sep=c.get("sep"))
    finally:
        ses.close()
    print("source:", c.get("source"))
    print("argv observed now:", got)
    open_keys = {f["key"] for f in ctx.known if f.get("status") == "open"}
    bad = [f for f in ctx.spec_failures if f["key"] not in open_keys]
    for f in ctx.spec_failures:
        print("property failure:", f["why"], "| observed:", f["observed"], "| known finding:", f["key"])
    print(f"VIOLATION property={ID} replay={path}" if bad else "no new violation on this input")
    return common.EXIT_VIOLATION if bad else common.EXIT_OK
