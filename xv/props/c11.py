"""C11 — Scoped environment changes are exactly undone and never leak across threads."""

from __future__ import annotations

import warnings

from .. import common
from ..codec import Sym
from ..threads import Worker

ID = "C11"
LEVEL = "proof"
PROPS_MODULES = ["XonshVerif.Props.C11"]
TECHNIQUE = "Lean 4 proof (layered-map state machine; restore/isolation/mask theorems by induction over swapped key lists; counterexample theorems) + differential correspondence with xonsh.environ.Env on real threads with imposed interleavings"
LEVEL_TEXT = (
    "proof: hand-written executable Lean model of Env's layers (global dict, per-thread local dict, per-thread overlay stack, "
    "registered defaults, DELETE_VAR mask, the shared _detyped cache) with swap enter/exit, set, del, detype and worker-thread "
    "inheritance. Theorems: exit restores every read path exactly when the swapped keys are explicitly set or have no default "
    "(C11_restore_partial), a thread's scoped operations never change another thread's [], in, iteration views for any schedule "
    "(C11_isolated), a masked key is absent from every read path at once (C11_mask_all_paths), [] and `in` always agree. The full "
    "statements that are false of today's code are kept with proved counterexamples (default-valued key left explicitly set; detype() "
    "served from another thread's cache) and replayed on the real Env as known findings. Tie: every read path of every thread "
    "compared after every op on generated histories executed by real threads in the order the schedule dictates."
)
LEVEL_NOTE = (
    "Trusted: Lean kernel + standard axioms; correspondence harness (baton scheduling: ops are atomic method calls). Values are "
    "immutable strings (in-place mutation is C10); callable defaults, UPDATE_OS_ENVIRON mirroring, variable sync/deprecation and "
    "events are not modelled. GIL atomicity of single dict operations is assumed."
)

# key universe: id -> (name, kind)
KEYS = {
    0: ("XV_D0", "default"),
    1: ("XV_D1", "default"),
    2: ("XV_R2", "registered"),
    3: ("XV_U3", "plain"),
    4: ("XV_U4", "plain"),
    5: ("XV_U5", "plain"),
}
DEFAULTS = [[0, 100], [1, 101]]
REGISTERED = [0, 1, 2]
UNIVERSE = sorted(KEYS)


def val(n):
    return f"v{n}"


def unval(s):
    return int(s[1:])


def cell(rng, mask_p=0.2):
    return Sym("mask") if rng.random() < mask_p else [Sym("v"), rng.randint(1, 9)]


def gen_history(rng, nthreads, length):
    """balanced-ish histories: the generator tracks each thread's scope depth"""
    depth = [0] * nthreads
    ops = []
    g0 = [[k, [Sym("v"), 50 + k]] for k in UNIVERSE if rng.random() < 0.45]
    for _ in range(length):
        t = rng.randrange(nthreads)
        r = rng.random()
        if r < 0.30 and depth[t] < 3:
            n = rng.choice([1, 1, 2, 3])
            keys = rng.sample(UNIVERSE, n)
            kvs = [[k, cell(rng)] for k in keys]
            if rng.random() < 0.35:
                okeys = rng.sample(UNIVERSE, rng.choice([1, 2]))
                ov = [Sym("some"), [[k, cell(rng, 0.3)] for k in okeys]]
                if rng.random() < 0.3:
                    kvs = []
            else:
                ov = None
            ops.append([t, Sym("enter"), kvs, ov])
            depth[t] += 1
        elif r < 0.55 and depth[t] > 0:
            ops.append([t, Sym("exit")])
            depth[t] -= 1
        elif r < 0.72:
            ops.append([t, Sym("set"), rng.choice(UNIVERSE), cell(rng, 0.15)])
        elif r < 0.82:
            ops.append([t, Sym("del"), rng.choice(UNIVERSE)])
        elif r < 0.90:
            ops.append([t, Sym("detype")])
        else:
            idle = [c for c in range(1, nthreads) if depth[c] == 0 and c != t]
            if idle:
                ops.append([t, Sym("spawn"), rng.choice(idle)])
                # the spawner moves on before the worker is scheduled (leaves or enters a scope, assigns)
                if depth[t] > 0 and rng.random() < 0.6:
                    ops.append([t, Sym("exit")])
                    depth[t] -= 1
                elif rng.random() < 0.5:
                    ops.append([t, Sym("set"), rng.choice(UNIVERSE), cell(rng, 0.1)])
            else:
                ops.append([t, Sym("detype")])
    for t in range(nthreads):  # close every scope
        while depth[t] > 0:
            ops.append([t, Sym("exit")])
            depth[t] -= 1
    return g0, ops


class Impl:
    def __init__(self, nthreads, g0):
        common.setup_repo_imports()
        from xonsh.environ import DefaultNotGiven, Env

        warnings.simplefilter("ignore")
        self.env = env = Env({KEYS[k][0]: val(c[1]) for k, c in g0})
        for k, (name, kind) in KEYS.items():
            if kind == "default":
                env.register(name, type="str", default=val(dict((a, b) for a, b in DEFAULTS)[k]))
            elif kind == "registered":
                env.register(name, default=DefaultNotGiven)
        env._detyped = None
        self.workers = [None] + [Worker(f"env-{i}") for i in range(1, nthreads)]
        self.cms = [[] for _ in range(nthreads)]
        self.exits = 0
        self.pending = {}  # child thread -> swapped values taken when it was spawned, adopted when it first runs

    def on(self, t, fn):
        return fn() if t == 0 else self.workers[t].call(fn)

    def pycell(self, c):
        return self.env.DELETE_VAR if c == "mask" else val(c[1])

    def step(self, op):
        env = self.env
        t, name, args = op[0], str(op[1]), op[2:]

        def do():
            if name == "set":
                env[KEYS[args[0]][0]] = self.pycell(args[1])
                return Sym("ok")
            if name == "del":
                try:
                    del env[KEYS[args[0]][0]]
                    return Sym("ok")
                except KeyError:
                    return Sym("keyError")
            if name == "enter":
                kvs = {KEYS[k][0]: self.pycell(c) for k, c in args[0]}
                ov = None if args[1] is None else {KEYS[k][0]: self.pycell(c) for k, c in args[1][1]}
                cm = env.swap(kvs, overlay=ov)
                cm.__enter__()
                self.cms[t].append(cm)
                return Sym("ok")
            if name == "exit":
                if not self.cms[t]:
                    return Sym("ok")
                cm = self.cms[t].pop()
                self.exits += 1
                mode = self.exits % 3
                try:
                    if mode == 1:
                        # leave by an ordinary exception: the same `finally` path must restore
                        try:
                            raise ValueError("leave scope by exception")
                        except ValueError as e:
                            import sys

                            cm.__exit__(*sys.exc_info())
                            del e
                    elif mode == 2:
                        # leave by SystemExit / KeyboardInterrupt (an alias calling exit(), Ctrl-C): not an `Exception`
                        exc = SystemExit(3) if self.exits % 2 else KeyboardInterrupt()
                        try:
                            raise exc
                        except BaseException:  # noqa: BLE001
                            import sys

                            try:
                                cm.__exit__(*sys.exc_info())
                            except (SystemExit, KeyboardInterrupt):
                                pass
                    else:
                        cm.__exit__(None, None, None)
                    return Sym("ok")
                except KeyError:
                    return Sym("keyError")
            if name == "detype":
                d = env.detype()
                names = {v[0]: k for k, v in KEYS.items()}
                return [Sym("detyped"), sorted([names[k], unval(v)] for k, v in d.items() if k in names)]
            raise common.InfraError(name)

        if name == "spawn":
            # the spawner takes its swapped values NOW; the worker adopts them only when it is first scheduled
            self.adopt(t)
            self.pending[args[0]] = self.on(t, env.get_swapped_values)
            return Sym("ok")
        self.adopt(t)
        return self.on(t, do)

    def adopt(self, t):
        if t in self.pending:
            vals = self.pending.pop(t)
            self.on(t, lambda: self.env.set_swapped_values(vals))

    def views(self):
        env = self.env
        out = []
        for t in range(len(self.workers)):
            if t in self.pending:
                out.append(None)  # spawned but not scheduled yet: it has no view of its own
                continue

            def snap():
                it = set(env)
                row = []
                for k in UNIVERSE:
                    name = KEYS[k][0]
                    try:
                        g = [Sym("some"), unval(env[name])]
                    except KeyError:
                        g = None
                    row.append([g, name in env, name in it])
                return row

            out.append(self.on(t, snap))
        return out

    def close(self):
        for w in self.workers[1:]:
            w.stop()


def fmt(x):
    if isinstance(x, Sym):
        return str(x)
    if isinstance(x, (list, tuple)):
        return [fmt(y) for y in x]
    return x


def unfmt(x):
    if isinstance(x, str):
        return Sym(x)
    if isinstance(x, list):
        return [unfmt(y) for y in x]
    return x


def model_run(ctx, nthreads, g0, ops):
    res = ctx.driver.call("c11.run", nthreads, g0, DEFAULTS, REGISTERED, UNIVERSE, ops)
    out = []
    for o, views, fresh in res:
        if isinstance(o, list) and o[0] == "detyped":
            o = [o[0], sorted(o[1])]
            fresh = [fresh[0], sorted(fresh[1])]
        out.append((o, views, fresh))
    return out


def run_history(ctx, nthreads, g0, ops):
    """-> (first disagreement | None, per-step impl observations)"""
    model = model_run(ctx, nthreads, g0, ops)
    impl = Impl(nthreads, g0)
    obs = []
    dis = None
    try:
        v0 = impl.views()
        for i, op in enumerate(ops):
            out = impl.step(op)
            views = impl.views()
            obs.append((out, views))
            mviews = [None if v is None else m for v, m in zip(views, model[i][1])]
            if dis is None and (out != model[i][0] or views != mviews):  # (model[i][2] is the spec-side detypeFresh)
                dis = (i, {"out": fmt(out), "views": fmt(views)}, {"out": fmt(model[i][0]), "views": fmt(model[i][1])})
        return dis, obs, v0, [m[2] for m in model]
    finally:
        impl.close()


# ------------------------------------------------------------------ the property, on the implementation alone
def property_failures(nthreads, ops, obs, v0):
    """(i, why, key) list.  Clauses checked directly on the real Env's observations:
    (1) a scope exit restores every read path of its thread to what it was at the matching enter, unless an op
        in between assigned/deleted a variable (then only the swapped+overlaid keys are compared... conservatively:
        only histories slices without interleaved set/del on the compared key count);
    (2) scoped ops of thread t never change the views of another thread;
    (3) a key is absent from [] iff absent from `in`; a masked key is absent from iteration too;
    (4) detype() of a thread agrees with its own [] view on explicitly visible keys."""
    fails = []
    stacks = [[] for _ in range(nthreads)]  # per thread: (index of enter, views before enter)
    prev = v0
    for i, (op, (out, views)) in enumerate(zip(ops, obs)):
        t, name = op[0], str(op[1])
        # (2) isolation
        if name in ("enter", "exit"):
            for u in range(nthreads):
                if u != t and views[u] is not None and prev[u] is not None and views[u] != prev[u]:
                    fails.append((i, f"step {i}: {name} in thread {t} changed the views of thread {u}", None))
        # (3) agreement of read paths
        for u in range(nthreads):
            if views[u] is None:
                continue
            for k, (g, c, it) in zip(UNIVERSE, views[u]):
                if (g is not None) != c:
                    fails.append((i, f"step {i}: thread {u} key {KEYS[k][0]}: [] and `in` disagree", None))
        if name == "enter":
            stacks[t].append((i, prev[t]))
        elif name == "exit" and stacks[t]:
            j, before = stacks[t].pop()
            if out == "keyError":
                fails.append((i, f"step {i}: leaving the scope entered at step {j} raised KeyError", "exit-raises-keyerror"))
            touched = set()
            for m in range(j + 1, i):
                o = ops[m]
                if str(o[1]) in ("set", "del"):
                    touched.add(o[2])  # assignments made inside persist: exclude those keys (any thread: global layer)
            for k, b, a in zip(UNIVERSE, before or [], views[t] or []):
                if k in touched:
                    continue
                if b != a:
                    key = None
                    fails.append((i, f"step {i}: after leaving the scope entered at step {j}, thread {t} reads {KEYS[k][0]} as {fmt(a)} but before the scope it read {fmt(b)}", key))
        prev = views
    return fails


def detype_failures(nthreads, ops, obs, fresh):
    """the mapping children receive must reflect the calling thread's CURRENT values: the real detype() result is
    compared with the Lean definition `detypeFresh` evaluated on the model state (which the per-op view comparison
    keeps in lock-step with the real Env); a difference means a stale or foreign cache was served"""
    fails = []
    for i, (op, (out, views)) in enumerate(zip(ops, obs)):
        if str(op[1]) != "detype":
            continue
        if out != fresh[i]:
            others = {o[0] for o in ops[:i] if str(o[1]) in ("enter", "exit", "set", "del", "detype")} - {op[0]}
            key = "detype-cache-shared-across-threads" if others else None
            fails.append((i, f"step {i}: detype() in thread {op[0]} returned {fmt(out[1])} but the thread's current values are {fmt(fresh[i][1])}", key))
    return fails


def classify(why, ops, i):
    return None


def stream(ctx, n, length, name="histories"):
    ctx.stream_rule(
        name,
        f"random histories of ~{length} ops on 1-3 REAL threads in a harness-imposed interleaving: swap enter (1-3 keys, values or "
        "DELETE_VAR, optional overlay dict, nesting <= 3) / exit (by return and by exception) / set / DELETE_VAR-set / del / detype / "
        "worker start inheriting swapped values, over 6 variables (2 with registered defaults, 1 registered without default, 3 plain) "
        "some preset globally; after EVERY op every thread's [], in, iteration views are compared with the Lean model and detype() "
        "results are compared; restore/isolation/agreement clauses are also checked on the real observations directly; "
        "non-trivial = nesting depth >= 2 or >= 2 threads active",
    )
    for _ in range(n):
        if ctx.enough_failures():
            break
        nthreads = ctx.rng.choice([1, 1, 2, 2, 3])
        g0, ops = gen_history(ctx.rng, nthreads, length)
        dis, obs, v0, fresh = run_history(ctx, nthreads, g0, ops)
        depth = 0
        maxdepth = 0
        for o in ops:
            ctx.count(f"op/{o[1]}")
            if str(o[1]) == "enter":
                depth += 1
                maxdepth = max(maxdepth, depth)
            elif str(o[1]) == "exit":
                depth -= 1
        ctx.case(name, repr((g0, ops)), maxdepth >= 2 or nthreads >= 2, {"nthreads": nthreads, "global": fmt(g0), "ops": fmt(ops[:10])})
        case = {"stream": name, "nthreads": nthreads, "global": fmt(g0), "ops": fmt(ops)}
        fails = property_failures(nthreads, ops, obs, v0) + detype_failures(nthreads, ops, obs, fresh)
        for i, why, key in fails[:3]:
            key = key or classify_failure(nthreads, g0, ops, obs, i, why)
            ctx.spec_failure(case | {"upto": i}, {"impl": fmt(list(obs[i]))}, why, key)
        if dis:
            ctx.disagree(name, case | {"upto": dis[0]}, dis[1], dis[2])
            if not fails:
                # the model is proved to restore, isolate and mask (Props/C11.lean) and is what worker inheritance is defined by
                # (a worker sees the swapped values its spawner had when it was spawned): a read path that departs from it
                # is a departure from those clauses
                i = dis[0]
                spawned = any(str(o[1]) == "spawn" for o in ops[: i + 1])
                why = (
                    "a worker thread does not see exactly the swapped values its spawner had when it spawned it"
                    if spawned and dis[1].get("out") == dis[2].get("out")
                    else f"step {i} {fmt(ops[i])}: the read paths / result differ from the layered-environment rules"
                )
                ctx.spec_failure(case | {"upto": i}, {"impl": dis[1], "rules": dis[2]}, why, None)


def classify_failure(nthreads, g0, ops, obs, i, why):
    """name of the known finding whose classifier matches (else None)"""
    op = ops[i]
    if str(op[1]) == "exit" and "but before the scope it read" in why:
        # restore of a key that was visible only through its registered default leaves it explicitly set:
        # views through [] / in / iter are equal; the difference shows in detype — handled in detype_failures
        pass
    return None


def replay_known(ctx):
    for f in ctx.known:
        w = f["witness"]
        ops = unfmt(w["ops"])
        g0 = unfmt(w["global"])
        dis, obs, v0, fresh = run_history(ctx, w["nthreads"], g0, ops)
        ok, detail = WITNESS[f["key"]](w, ops, obs)
        ctx.replayed(f["key"], not ok, detail)
        if not ok:
            ctx.spec_failure({"stream": "known-witness", **w}, detail, f["what"], f["key"])


def _w_default_left_set(w, ops, obs):
    # detype before the scope and after it must be equal
    first = [o for op, (o, v) in zip(ops, obs) if str(op[1]) == "detype"]
    return first[0] == first[-1], {"detype_before": fmt(first[0]), "detype_after": fmt(first[-1])}


def _w_overlay_captured(w, ops, obs):
    # after both scopes the key reads as before the outer scope (the global value 52)
    view = obs[-1][1][0][2]
    return view[0] == [Sym("some"), 52], {"reads_after_scopes": fmt(view)}


def _w_exit_keyerror(w, ops, obs):
    return obs[-1][0] != "keyError", {"exit_result": fmt(obs[-1][0])}


def _w_cache_shared(w, ops, obs):
    # last op: detype in thread 1 must not contain thread 0's swapped value
    out = obs[-1][0]
    view = obs[-1][1][ops[-1][0]]
    got = dict((k, v) for k, v in out[1])
    bad = [k for k, (g, c, it) in zip(UNIVERSE, view) if k in got and (g is None or g[1] != got[k])]
    return not bad, {"detype_in_other_thread": fmt(out), "its_own_view": fmt(view)}


WITNESS = {
    "swap-leaves-default-explicitly-set": _w_default_left_set,
    "overlay-value-captured": _w_overlay_captured,
    "exit-raises-keyerror": _w_exit_keyerror,
    "detype-cache-shared-across-threads": _w_cache_shared,
}


def run(ctx):
    ctx.assumptions += [
        "each Env method call is atomic (the harness imposes the interleaving between calls; the GIL is assumed for single dict operations)",
        "values are immutable strings; callable defaults, UPDATE_OS_ENVIRON, sync/deprecated variables are outside the model",
    ]
    ctx.explanation = (
        "Model EnvL (lean/XonshVerif/Model/EnvLayers.lean), theorems Props/C11.lean; tie = per-op comparison of all read paths of all "
        "threads between the real Env (ops executed by real threads in the scheduled order) and the model."
    )
    replay_known(ctx)
    stream(ctx, ctx.n(400, 6000), ctx.n(25, 40))


def search(ctx, reason):
    ctx.extra["search_reason"] = reason
    stream(ctx, ctx.n(2000, 10000), 40, name="search:histories")


def replay(ctx, path):
    import json

    r = json.loads(open(path).read())
    c = r["case"]
    ops = unfmt(c["ops"])[: c.get("upto", len(c["ops"])) + 1]
    g0 = unfmt(c["global"])
    dis, obs, v0, fresh = run_history(ctx, c["nthreads"], g0, ops)
    fails = property_failures(c["nthreads"], ops, obs, v0) + detype_failures(c["nthreads"], ops, obs, fresh)
    for f in fails:
        print(f)
    print("model disagreement:", dis)
    bad = bool(fails)
    print(f"VIOLATION property={ID} replay={path}" if bad else "property holds on this history")
    return common.EXIT_VIOLATION if bad else common.EXIT_OK
