"""C16 — `$PWD`, the process directory and the directory stack stay in step."""

from __future__ import annotations

import contextlib
import io
import os
import shutil
import sys
import uuid

from .. import common
from ..codec import Sym

ID = "C16"
LEVEL = "proof"
PROPS_MODULES = ["XonshVerif.Props.C16"]
TECHNIQUE = "Lean 4 proof (state-machine invariants by induction over op sequences; counterexample theorems for the known findings) + differential correspondence with xonsh/dirstack.py in an unprivileged child"
LEVEL_TEXT = (
    "proof: hand-written executable Lean model of cd / pushd / popd / dirs / _change_working_directory over an abstract file "
    "system that can change between commands. Theorems for ALL op sequences: $PWD always names the process directory and "
    "$OLDPWD the previous one; an rc != 0 return changes nothing; the stack holds at most $DIRSTACK_SIZE entries after every "
    "successful pushd; pushd d; popd restores directory and stack; +N/-N index decoding incl. $PUSHD_MINUS; the dirs listing is "
    "permuted, never invented. Full statements that are FALSE of today's code (failed chdir after the stack was already rewritten; "
    "pushd +N is a move-to-front, not the documented rotation) are kept with proved counterexamples and replayed as known findings. "
    "Tie: per-step differential comparison with the real functions over a scratch tree (symlink, file, removed and unsearchable "
    "directories), run as an unprivileged user."
)
LEVEL_NOTE = (
    "Trusted: Lean kernel + standard axioms; correspondence harness; os.path.join/abspath/expanduser on the absolute normalised "
    "paths the harness feeds; $CDPATH is empty (its glob lookup is not modelled); Windows UNC handling is out of scope."
)

# path ids of the scratch tree
HOME, D1, D2, D3, D4, FILE5, LINK6, MISSING7, NOEXEC8 = range(9)
NAMES = {HOME: "home0", D1: "d1", D2: "d2", D3: "d3", D4: "d4", FILE5: "f5", LINK6: "l6", MISSING7: "m7", NOEXEC8: "x8"}
LINKS = [[LINK6, D2]]
INIT_FS = [[HOME, Sym("dir")], [D1, Sym("dir")], [D2, Sym("dir")], [D3, Sym("dir")], [D4, Sym("dir")], [FILE5, Sym("file")], [NOEXEC8, Sym("noexec")]]


def gen_op(rng, st, have_noexec):
    """st = model state (pwd, oldpwd, stack, cwd, fs): used only to avoid removing the directory we are in"""
    paths = [HOME, D1, D2, D3, D4, D4, LINK6] + ([NOEXEC8] if have_noexec else [])
    odd = [FILE5, MISSING7] + ([NOEXEC8] if have_noexec else [])
    r = rng.random()
    if r < 0.06:
        return [Sym("extChdir"), rng.choice(paths)]
    if r < 0.27:
        k = rng.random()
        if k < 0.5:
            a = [Sym("path"), rng.choice(paths + odd)]
        elif k < 0.62:
            a = Sym("dash")
        elif k < 0.80:
            a = [Sym("dashNum"), rng.choice([-1, 0, 1, 1, 2, 2, 3, 4, 6])]
        elif k < 0.86:
            a = Sym("dashBad")
        elif k < 0.93:
            a = Sym("none")
        else:
            a = Sym("many")
        return [Sym("cd"), a, rng.random() < 0.15]
    if r < 0.57:
        k = rng.random()
        if k < 0.5:
            a = [Sym("path"), rng.choice(paths + paths + odd)]
        elif k < 0.85:
            a = [Sym(rng.choice(["plus", "minus"])), rng.choice([0, 1, 1, 2, 2, 3, 4, 6])]
        elif k < 0.93:
            a = Sym("none")
        else:
            a = Sym("bad")
        return [Sym("pushd"), a, rng.random() < 0.85]
    if r < 0.77:
        k = rng.random()
        if k < 0.45:
            a = Sym("none")
        elif k < 0.9:
            a = [Sym(rng.choice(["plus", "minus"])), rng.choice([0, 0, 1, 1, 2, 3, 5])]
        else:
            a = Sym("bad")
        return [Sym("popd"), a, rng.random() < 0.85]
    if r < 0.85:
        k = rng.random()
        if k < 0.4:
            a = Sym("none")
        elif k < 0.85:
            a = [Sym(rng.choice(["plus", "minus"])), rng.choice([0, 1, 2, 3, 5])]
        elif k < 0.93:
            a = Sym("clear")
        else:
            a = Sym("bad")
        return [Sym("dirs"), a]
    if r < 0.92:
        here = {st[0], st[3]}
        cands = [p for p in (D3, D4) if p not in here and not (p == D2)]
        if cands:
            return [Sym("rmdir"), rng.choice(cands)]
        return [Sym("dirs"), Sym("none")]
    if r < 0.96:
        return [Sym("mkdir"), rng.choice([D3, D4])]
    return [Sym("setCfg"), rng.random() < 0.4, rng.random() < 0.4, rng.choice([0, 1, 2, 3, 3, 20, 20])]


def gen_history(ctx, rng, length, have_noexec):
    """generate ops while stepping the MODEL (so the generator knows where it is); returns ops + model observations"""
    cfg = [rng.random() < 0.3, rng.random() < 0.3, rng.choice([2, 3, 20, 20]), HOME, LINKS]
    fs = [e for e in INIT_FS if have_noexec or e[0] != NOEXEC8]
    st = [HOME, None, [], HOME, fs]
    cfg0 = list(cfg)
    ops, obs = [], []
    for _ in range(length):
        op = gen_op(rng, st, have_noexec)
        todo = [op]
        # the shell runs BaseShell._fix_cwd after every command; always after an external chdir
        if str(op[0]) == "extChdir" or (str(op[0]) in ("cd", "pushd", "popd") and rng.random() < 0.6):
            todo.append([Sym("fixCwd")])
        for op in todo:
            cfg, st, out = ctx.driver.call("c16.step", cfg, encode_state(st), op)
            st = decode_state(st)
            ops.append(op)
            obs.append((out, list(st[:4]), list(cfg[:3])))
    return cfg0, ops, obs


def encode_state(st):
    pwd, old, stack, cwd, fs = st
    return [pwd, None if old is None else [Sym("some"), old], stack, cwd, fs]


def decode_state(st):
    pwd, old, stack, cwd, fs = st
    return [pwd, None if old is None else old[1], stack, cwd, fs]


# ------------------------------------------------------------------ implementation side (runs in the child)
ERR_CLASSES = [
    ("no previous directory", "noPrev"),
    ("Invalid destination", "invalid"),
    ("Invalid argument", "invalid"),
    ("Too few elements", "tooFew"),
    ("takes 0 or 1 arguments", "arity"),
    ("no such file or directory", "noSuch"),
    ("is not a directory", "notDir"),
    ("permission denied", "perm"),
    ("stack is empty", "empty"),
]


def impl_histories(job):
    """child: run each history on the real xonsh.dirstack; returns per-step observations"""
    base, have_noexec, histories = job
    common.setup_repo_imports()
    import xonsh.dirstack as ds
    from xonsh.built_ins import XSH
    from xonsh.environ import Env
    from xonsh.shells.base_shell import BaseShell

    class ShellStub:
        def print_color(self, *a, **k):
            pass

    results = []
    for cfg, ops in histories:
        root = os.path.join(base, "t-" + uuid.uuid4().hex[:8])
        os.makedirs(root)
        P = {i: os.path.join(root, n) for i, n in NAMES.items()}
        R = {v: k for k, v in P.items()}
        for i in (HOME, D1, D2, D3, D4):
            os.mkdir(P[i])
        open(P[FILE5], "w").close()
        os.symlink(P[D2], P[LINK6])
        if have_noexec:
            os.mkdir(P[NOEXEC8])
            os.chmod(P[NOEXEC8], 0)
        env = XSH.env = Env(
            PWD=P[HOME], HOME=P[HOME], AUTO_PUSHD=cfg[0], PUSHD_MINUS=cfg[1], DIRSTACK_SIZE=cfg[2], CDPATH=[], PUSHD_SILENT=True
        )
        env.pop("OLDPWD", None)
        ds.DIRSTACK = []
        os.chdir(P[HOME])
        obs = []

        def parg(a):
            if isinstance(a, list):
                k = str(a[0])
                return P[a[1]] if k == "path" else ("+" if k == "plus" else "-") + str(a[1])
            return {"none": None, "bad": "zz9"}[str(a)]

        def classify(res):
            out, err, rc = (res + (0,))[:3] if len(res) == 2 else res
            if rc:
                for needle, cls in ERR_CLASSES:
                    if needle in (err or ""):
                        return [Sym("err"), Sym(cls)]
                return [Sym("err"), Sym("unclassified:" + (err or "")[:60].replace(" ", "_"))]
            return Sym("ok")

        for op in ops:
            name = str(op[0])
            errbuf = io.StringIO()
            try:
                with contextlib.redirect_stderr(errbuf), contextlib.redirect_stdout(errbuf):
                    if name == "fixCwd":
                        BaseShell._fix_cwd(ShellStub())
                        out = Sym("ok")
                    elif name == "extChdir":
                        try:
                            os.chdir(P[op[1]])
                        except OSError:
                            pass
                        out = Sym("ok")
                    elif name == "cd":
                        a = op[1]
                        if isinstance(a, list):
                            args = [P[a[1]]] if str(a[0]) == "path" else ["-" + str(a[1])]
                        else:
                            args = {"none": [], "dash": ["-"], "dashBad": ["-x"], "many": [P[D1], P[D2]]}[str(a)]
                        if op[2]:
                            args = ["-P"] + args
                        out = classify(ds.cd(list(args)))
                    elif name == "pushd":
                        # quiet and noisy pushes take different exits of pushd_fn ($PUSHD_SILENT decides for the noisy one)
                        noisy = (len(obs) % 3) == 0
                        env["PUSHD_SILENT"] = not noisy
                        out = classify(ds.pushd_fn(parg(op[1]), cd=op[2], quiet=not noisy))
                        env["PUSHD_SILENT"] = True
                    elif name == "popd":
                        out = classify(ds.popd_fn(parg(op[1]), cd=op[2], quiet=True))
                    elif name == "dirs":
                        a = op[1]
                        if str(a) == "clear":
                            out = classify(ds.dirs_fn(clear=True))
                        else:
                            res = ds.dirs_fn(nth=parg(a), long=True)
                            out = classify(res)
                            if out == "ok":
                                out = [Sym("listing"), [R.get(x, -1) for x in res[0].strip("\n").split(" ")]]
                    elif name == "rmdir":
                        if os.path.isdir(P[op[1]]):
                            os.rmdir(P[op[1]])
                        out = Sym("ok")
                    elif name == "mkdir":
                        os.makedirs(P[op[1]], exist_ok=True)
                        out = Sym("ok")
                    elif name == "setCfg":
                        env["AUTO_PUSHD"], env["PUSHD_MINUS"], env["DIRSTACK_SIZE"] = op[1], op[2], op[3]
                        out = Sym("ok")
            except Exception as e:  # an internal exception escaping a directory command
                out = Sym(f"raised-{type(e).__name__}")
            try:
                phys = os.path.realpath(os.getcwd())
            except OSError:
                phys = None
            cwd_id = R.get(phys, -1)
            pwd = env.get("PWD")
            same = False
            try:
                same = os.path.samefile(pwd, ".")
            except OSError:
                pass
            obs.append(
                (
                    out,
                    [R.get(pwd, -1), None if env.get("OLDPWD") == "." else R.get(env.get("OLDPWD"), -1), [R.get(x, -1) for x in ds.DIRSTACK], cwd_id],
                    [bool(env.get("AUTO_PUSHD")), bool(env.get("PUSHD_MINUS")), env.get("DIRSTACK_SIZE")],
                    same,
                    "cd: [Errno" in errbuf.getvalue(),  # _change_working_directory reported a failed chdir
                )
            )
        results.append(obs)
        os.chdir(base)
        if have_noexec:
            os.chmod(P[NOEXEC8], 0o700)
        shutil.rmtree(root, ignore_errors=True)
    return results


# ------------------------------------------------------------------ comparison / property
def fmt_ops(ops):
    def f(x):
        if isinstance(x, Sym):
            return str(x)
        if isinstance(x, list):
            return [f(y) for y in x]
        return x

    return [f(o) for o in ops]


def check_history(cfg, ops, model_obs, impl_obs):
    """(disagreement | None, [property failures])"""
    fails = []
    dis = None
    prev = (None, [HOME, None, [], HOME], list(cfg[:3]))
    for i, (m, im) in enumerate(zip(model_obs, impl_obs)):
        out, st, c, same, chdir_failed = im
        before = prev_impl_state(impl_obs, i)
        # --- the property, on the implementation alone -------------------------------------------
        if isinstance(out, Sym) and str(out).startswith("raised-"):
            fails.append((i, f"step {i} {fmt_ops([ops[i]])[0]}: internal exception {out}", None))
        if not same and str(ops[i][0]) != "extChdir":
            fails.append((i, f"after step {i} $PWD does not name the process's working directory", None))
        if isinstance(out, list) and out[0] == "err" and str(ops[i][0]) in ("cd", "pushd", "popd", "dirs"):
            if st != prev_impl_state(impl_obs, i):
                fails.append((i, f"step {i} {fmt_ops([ops[i]])[0]} failed (rc 1) but changed the state", None))
        if str(ops[i][0]) == "pushd" and out == "ok" and c[2] >= 0 and len(st[2]) > c[2]:
            fails.append((i, f"after a successful pushd the stack holds {len(st[2])} > $DIRSTACK_SIZE={c[2]} entries", None))
        if chdir_failed and str(ops[i][0]) in ("pushd", "popd") and (st != before or out == "ok"):
            key = "chdir-fails-after-stack-rewrite" if (st[0] == before[0] and st[3] == before[3]) else None
            fails.append((i, f"step {i} {fmt_ops([ops[i]])[0]}: the chdir failed, yet rc is {'0' if out == 'ok' else '1'} and the stack went {before[2]} -> {st[2]}", key))
        if str(ops[i][0]) == "pushd" and out == "ok" and ops[i][2] is True and isinstance(ops[i][1], list) and str(ops[i][1][0]) in ("plus", "minus") and not chdir_failed:
            l0 = [before[0]] + before[2]
            l1 = [st[0]] + st[2]
            n = ops[i][1][1]
            pm = prev_cfg(impl_obs, cfg, i)[1]
            from_left = (str(ops[i][1][0]) == "plus") != pm
            k = n if from_left else len(l0) - 1 - n
            if 0 <= k < len(l0) and len(l0) <= max(c[2], 0):
                want = l0[k:] + l0[:k]  # == DirStack.rotateListing (the replayed witness asks the Lean definition)
                if l1 != want:
                    mtf = [l0[k]] + l0[:k] + l0[k + 1 :]
                    key = "pushd-n-is-not-a-rotation" if l1 == mtf else None
                    fails.append((i, f"step {i} pushd {'+' if str(ops[i][1][0]) == 'plus' else '-'}{n}: listing {l0} became {l1}, the documented rotation is {want}", key))
        # --- model vs implementation ---------------------------------------------------------------
        if dis is None and (out != m[0] or st != m[1] or c != m[2]):
            dis = (i, {"out": out, "state": st, "cfg": c}, {"out": m[0], "state": m[1], "cfg": m[2]})
        prev = m
    return dis, fails


def prev_cfg(impl_obs, cfg, i):
    return impl_obs[i - 1][2] if i > 0 else list(cfg[:3])


def prev_impl_state(impl_obs, i):
    return impl_obs[i - 1][1] if i > 0 else [HOME, None, [], HOME]


def stream(ctx, n, length, name="histories"):
    ctx.stream_rule(
        name,
        f"random histories of {length} directory commands (cd with path/-/-N/-P/garbage/two args; pushd/popd with none/dir/+N/-N/garbage, "
        "with and without -n; dirs with +N/-N/-c; directories removed and re-created between commands; $AUTO_PUSHD/$PUSHD_MINUS/"
        "$DIRSTACK_SIZE changed mid-history) over a scratch tree with a symlink, a file, a missing name and a mode-000 directory, "
        "executed by the real functions in a child without root; after EVERY step $PWD, $OLDPWD, DIRSTACK, physical cwd, rc and error "
        "class are compared with the Lean model; non-trivial = history whose stack reached >= 3 entries",
    )
    have_noexec = True
    base = common.scratch_root() / "c16"
    base.mkdir(exist_ok=True)
    os.chmod(common.scratch_root(), 0o755)
    os.chmod(base, 0o777)
    batch = []
    for _ in range(n):
        cfg, ops, obs = gen_history(ctx, ctx.rng, length, have_noexec)
        batch.append((cfg, ops, obs))
    warm_up(base, batch[0])
    results = []
    for k in range(0, len(batch), 100):
        part = batch[k : k + 100]
        results += common.run_unprivileged(impl_histories, (str(base), have_noexec, [(c, o) for c, o, _ in part]))
    for (cfg, ops, mobs), iobs in zip(batch, results):
        dis, fails = check_history(cfg, ops, mobs, iobs)
        peak = max(len(m[1][2]) for m in mobs)
        for o in ops:
            ctx.count(f"op/{o[0]}")
        for m in mobs:
            ctx.count("result/" + (str(m[0]) if isinstance(m[0], Sym) else "-".join(str(x) for x in m[0][:2] if not isinstance(x, list))))
        ctx.case(name, repr(ops), peak >= 3, {"cfg": fmt_ops([cfg])[0], "ops": fmt_ops(ops[:10])})
        case = {"stream": name, "cfg": fmt_ops([cfg])[0], "ops": fmt_ops(ops)}
        for i, why, key in fails[:3]:
            ctx.spec_failure(case | {"upto": i}, {"impl": fmt_ops([list(iobs[i][:3])])[0]}, why, key)
        if dis:
            i = dis[0]
            ctx.disagree(name, case | {"upto": i}, fmt_ops([dis[1]])[0], fmt_ops([dis[2]])[0])
            # the model is proved to satisfy the property's clauses (Props/C16.lean); a step where the real code
            # departs from it in state or result is a departure from the documented rules
            ctx.spec_failure(
                case | {"upto": i},
                {"impl": fmt_ops([dis[1]])[0], "documented": fmt_ops([dis[2]])[0]},
                f"{ops[i][0]} {fmt_ops([ops[i][1:]])[0]}: state/result differs from the documented rules",
                None,
            )


_warm = False


def warm_up(base, item):
    """the interpreter's stdlib is under /root (mode 700): resolve every lazy import as root, in the
    parent, before forking the unprivileged children (result discarded)"""
    global _warm
    if not _warm:
        here = os.getcwd()
        impl_histories((str(base), False, [(item[0], item[1])]))
        os.chdir(here)
        _warm = True


def replay_known(ctx):
    """witness histories of known_findings.json: an open one is expected to still fail"""
    base = common.scratch_root() / "c16"
    base.mkdir(exist_ok=True)
    os.chmod(common.scratch_root(), 0o755)
    os.chmod(base, 0o777)
    for f in ctx.known:
        w = f["witness"]
        warm_up(base, (unfmt([w["cfg"]])[0], unfmt(w["ops"])))
        ops = unfmt(w["ops"])
        cfg = unfmt([w["cfg"]])[0]
        iobs = common.run_unprivileged(impl_histories, (str(base), True, [(cfg, ops)]))[0]
        ok, detail = WITNESS_CHECKS[f["key"]](ctx, cfg, ops, iobs)
        ctx.replayed(f["key"], not ok, detail)
        if not ok:
            ctx.spec_failure({"stream": "known-witness", "cfg": w["cfg"], "ops": w["ops"]}, detail, f["what"], f["key"])


def unfmt(x):
    if isinstance(x, str):
        return Sym(x)
    if isinstance(x, list):
        return [unfmt(y) for y in x]
    return x


def _w_chdir_fail(ctx, cfg, ops, iobs):
    # last step: a pushd/popd whose chdir fails must leave the stack unchanged or report rc != 0
    last, prev = iobs[-1], iobs[-2]
    changed = last[1][2] != prev[1][2]
    ok = not (last[0] == "ok" and last[1][0] == prev[1][0] and changed)
    return ok, {"before": prev[1], "after": last[1], "rc_class": str(last[0])}


def _w_rotation(ctx, cfg, ops, iobs):
    # listing before the last step, rotated so that entry N is on top, must equal the listing after
    prev, last = iobs[-2], iobs[-1]
    before = [prev[1][0]] + prev[1][2]
    after = [last[1][0]] + last[1][2]
    n = ops[-1][1][1]
    want = ctx.driver.call("c16.rotate", before, n)
    return after == want, {"listing_before": before, "listing_after": after, "documented_rotation": want}


WITNESS_CHECKS = {"chdir-fails-after-stack-rewrite": _w_chdir_fail, "pushd-n-is-not-a-rotation": _w_rotation}



# ------------------------------------------------------------------ stream 2: the real command loop, relative paths, symlinks
REL_ARGS = ["..", "deep", "x", "../b", "../a", "link", "link/..", "linkb", "linkb/x", "linkb/..", "a", "b", "a/deep", "a/deep/..", ".", "-", "../.."]


def _loop_history(item):
    """run one history of command LINES through the real BaseShell.default (the command loop's body) in a scratch tree with
    symlinks into deeper directories; after every line report ($PWD, os.getcwd(), realpath($PWD), error text)"""
    lines, seed, direct = item
    common.setup_repo_imports()
    import builtins

    from xonsh.built_ins import XSH
    from xonsh.execer import Execer
    from xonsh.shells.base_shell import BaseShell

    if not getattr(builtins, "__xv_c16_loop__", False):
        XSH.load(execer=Execer(), inherit_env=False)
        builtins.__xv_c16_loop__ = True
    env = XSH.env
    root = os.path.realpath(str(common.scratch_root() / ("c16l-" + uuid.uuid4().hex[:8])))
    for d in ("a/deep", "b/x"):
        os.makedirs(os.path.join(root, d))
    os.symlink(os.path.join(root, "a", "deep"), os.path.join(root, "link"))
    os.symlink(os.path.join(root, "b"), os.path.join(root, "linkb"))
    import xonsh.dirstack as ds

    ds.DIRSTACK = []
    os.chdir(root)
    env["PWD"] = root
    env.pop("OLDPWD", None)
    env["HOME"] = root
    env["CDPATH"] = []
    env["AUTO_PUSHD"] = False
    env["PUSHD_SILENT"] = True
    env["XONSH_SHOW_TRACEBACK"] = False
    shell = BaseShell(execer=XSH.execer, ctx={"__name__": "xv"})
    XSH.shell = type("S", (), {"shell": shell})()
    out = []
    try:
        for ln in lines:
            ln = ln.replace("@ROOT@", root)
            errbuf = io.StringIO()
            interrupted = False
            with contextlib.redirect_stderr(errbuf), contextlib.redirect_stdout(errbuf):
                try:
                    w = ln.split()
                    if direct and w[0] in ("cd", "pushd", "popd"):
                        # the command function alone: what it leaves behind is observed BEFORE the loop's _fix_cwd can heal it
                        if w[0] == "cd":
                            r_ = ds.cd(w[1:])
                        elif w[0] == "pushd":
                            r_ = ds.pushd_fn(w[1], quiet=True)
                        else:
                            r_ = ds.popd_fn(quiet=True)
                        if r_ and len(r_) > 1 and r_[1]:
                            print(r_[1], file=sys.stderr)
                    else:
                        shell.default(ln + "\n")
                except KeyboardInterrupt:
                    interrupted = True  # the real loops (readline / prompt-toolkit cmdloop) catch it and go on
                except SystemExit:
                    pass
            pwd = env.get("PWD")
            try:
                cwd = os.getcwd()
            except OSError:
                cwd = None
            out.append(
                {
                    "pwd": None if pwd is None else os.path.relpath(pwd, root),
                    "cwd": None if cwd is None else os.path.relpath(cwd, root),
                    "pwd_real": None if pwd is None else os.path.relpath(os.path.realpath(pwd), root),
                    "err": errbuf.getvalue()[-200:],
                    "interrupted": interrupted,
                }
            )
    finally:
        os.chdir("/")
        shutil.rmtree(root, ignore_errors=True)
    return out


def stream_loop(ctx, n, length, name="command-loop-relative-paths"):
    ctx.stream_rule(
        name,
        "histories of command LINES run through the real BaseShell.default (the body of the command loop, incl. its `finally: "
        "_fix_cwd()`) in a scratch tree whose symlinks point into DEEPER directories (link -> a/deep, linkb -> b): cd / pushd / popd "
        "with relative arguments (.., link/.., linkb/x, -), Python lines that change the process directory behind the shell's back, "
        "and such lines interrupted by KeyboardInterrupt (the loops catch it and continue); in half of the histories cd/pushd/popd are "
        "called as functions, so that what they leave behind is seen before the loop's _fix_cwd can heal it. Oracle from the property, no model: "
        "after EVERY line the directory $PWD names (symlinks resolved) is the process's working directory, and a line that printed "
        "a cd error left both unchanged; non-trivial = a `..` right after entering through a symlink, or an out-of-band chdir",
    )
    items = []
    for _ in range(n):
        r = ctx.rng
        lines = []
        for _ in range(length):
            k = r.random()
            if k < 0.55:
                lines.append(f"{r.choice(['cd', 'cd', 'pushd'])} {r.choice(REL_ARGS)}")
            elif k < 0.65:
                lines.append("popd")
            elif k < 0.82:
                lines.append(f"import os; os.chdir('@ROOT@/{r.choice(['a', 'a/deep', 'b', 'b/x', 'link', 'linkb'])}')")
            else:
                lines.append(f"import os; os.chdir('@ROOT@/{r.choice(['a', 'a/deep', 'b', 'b/x', 'link'])}'); raise KeyboardInterrupt")
        items.append([lines, r.randrange(1 << 30), r.random() < 0.5])
    results = common.map_in_child(_loop_history, items, per_item_timeout=60, label="c16-loop")
    for (lines, _, direct), res in zip(items, results):
        if res == common.HANG or (isinstance(res, dict) and "__exc__" in res):
            raise common.InfraError(f"C16 command-loop worker failed: {res}")
        nontriv = any("link" in ln and ".." in ln for ln in lines) or any("os.chdir" in ln for ln in lines)
        ctx.case(name, repr(lines), nontriv, {"lines": lines[:6]})
        prev = {"pwd": ".", "cwd": "."}
        for i, (ln, o) in enumerate(zip(lines, res)):
            ctx.count("loop/" + ("interrupt" if "KeyboardInterrupt" in ln else "chdir-behind" if "os.chdir" in ln else ln.split()[0]))
            case = {"stream": name, "lines": lines[: i + 1], "command_functions_called_directly": direct}
            if o["cwd"] != o["pwd_real"]:
                ctx.spec_failure(case, o, "after the line, $PWD does not name the process's working directory", None)
                break
            if "cd:" in o["err"] and (o["pwd"], o["cwd"]) != (prev["pwd"], prev["cwd"]) and "os.chdir" not in ln:
                ctx.spec_failure(case, {"before": prev, "after": o}, "a cd/pushd/popd that reported an error changed $PWD or the process directory", None)
                break
            prev = o


def run(ctx):
    ctx.assumptions += [
        "paths fed to the commands are absolute and normalised; $CDPATH is empty",
        "the file system changes only between commands (rmdir/mkdir ops), never during one",
    ]
    ctx.explanation = (
        "Model DirStack (lean/XonshVerif/Model/DirStack.lean), theorems Props/C16.lean for all op sequences and all file-system "
        "oracles; tie = per-step differential comparison with xonsh/dirstack.py over a scratch tree, in an unprivileged child."
    )
    replay_known(ctx)
    stream(ctx, ctx.n(1000, 10000), ctx.n(20, 30))
    stream_loop(ctx, ctx.n(120, 1500), ctx.n(10, 16))


def search(ctx, reason):
    ctx.extra["search_reason"] = reason
    stream(ctx, ctx.n(1500, 8000), 30, name="search:histories")


def replay(ctx, path):
    import json

    r = json.loads(open(path).read())
    c = r["case"]
    ops = unfmt(c["ops"])[: c.get("upto", len(c["ops"])) + 1]
    cfg = unfmt([c["cfg"]])[0]
    base = common.scratch_root() / "c16"
    base.mkdir(exist_ok=True)
    os.chmod(common.scratch_root(), 0o755)
    os.chmod(base, 0o777)
    warm_up(base, (cfg, ops))
    iobs = common.run_unprivileged(impl_histories, (str(base), True, [(cfg, ops)]))[0]
    # model observations
    st = [HOME, None, [], HOME, INIT_FS]
    mobs = []
    mcfg = cfg
    for op in ops:
        mcfg, st, out = ctx.driver.call("c16.step", mcfg, encode_state(st), op)
        st = decode_state(st)
        mobs.append((out, list(st[:4]), list(mcfg[:3])))
    dis, fails = check_history(cfg, ops, mobs, iobs)
    print("implementation:", fmt_ops([list(iobs[-1][:3])])[0])
    print("documented    :", fmt_ops([list(mobs[-1])])[0])
    bad = bool(dis or fails)
    print(f"VIOLATION property={ID} replay={path}" if bad else "property holds on this history")
    return common.EXIT_VIOLATION if bad else common.EXIT_OK
