#!/usr/bin/env python3
"""usage: baseline_compare.py <junit.xml>   — every test of BASELINE.json's stable_pass must pass"""
import json
import sys
import xml.etree.ElementTree as ET

stable = set(json.load(open("/root/.vp/BASELINE.json"))["stable_pass"])
res = {}
for tc in ET.parse(sys.argv[1]).iter("testcase"):
    st = "pass"
    for ch in tc:
        if ch.tag in ("failure", "error"):
            st = "fail"
        elif ch.tag == "skipped":
            st = "skip"
    res[f"{tc.get('classname')}::{tc.get('name')}"] = st
missing = sorted(n for n in stable if res.get(n) != "pass")
print(f"stable_pass={len(stable)} not-passing={len(missing)}")
for m in missing[:40]:
    print("  ", m, res.get(m))
sys.exit(1 if missing else 0)
