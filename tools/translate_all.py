#!/venv/bin/python
"""Run every property's translator (writes lean/XonshVerif/Gen/*.lean from /repo's working tree)."""
import importlib
import os
import pkgutil
import sys

sys.dont_write_bytecode = True
HERE = os.path.dirname(os.path.dirname(os.path.abspath(__file__)))
sys.path.insert(0, HERE)
from xv import common  # noqa: E402
import xv.props  # noqa: E402

import json  # noqa: E402

ACCEPTED = set(json.load(open(os.path.join(HERE, "tools", "accepted.json"))))
for m in sorted(pkgutil.iter_modules(xv.props.__path__), key=lambda m: m.name):
    try:
        mod = importlib.import_module(f"xv.props.{m.name}")
    except Exception as e:  # a check under construction must not break the claimed ones
        print(f"{m.name}: not importable ({e}); skipped")
        continue
    if hasattr(mod, "translate") and hasattr(mod, "ID"):
        try:
            ctx = common.Ctx(mod.ID, "quick", 0, mod.LEVEL)
            mod.translate(ctx)
            print(f"{mod.ID}: translated; errors={ctx.translator_errors}")
        except Exception as e:
            if mod.ID in ACCEPTED:
                raise
            print(f"{mod.ID}: translator failed ({e}); check under construction, skipped")
