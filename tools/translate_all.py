#!/venv/bin/python
"""Run every property's translator (writes lean/XonshVerif/Gen/*.lean from /repo's working tree)."""
import importlib
import os
import pkgutil
import sys

sys.dont_write_bytecode = True
HERE = os.path.dirname(os.path.dirname(os.path.abspath(__file__)))
sys.path.insert(0, HERE)
from xv import common  # noqa: E402
import xv.props  # noqa: E402

for m in sorted(pkgutil.iter_modules(xv.props.__path__), key=lambda m: m.name):
    mod = importlib.import_module(f"xv.props.{m.name}")
    if hasattr(mod, "translate"):
        ctx = common.Ctx(mod.ID, "quick", 0, mod.LEVEL)
        mod.translate(ctx)
        print(f"{mod.ID}: translated; errors={ctx.translator_errors}")
