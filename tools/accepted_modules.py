#!/venv/bin/python
"""Print the Lean modules (Gen + Props) of every claimed property, for setup.sh."""
import importlib
import json
import os
import pkgutil
import sys

sys.dont_write_bytecode = True
HERE = os.path.dirname(os.path.dirname(os.path.abspath(__file__)))
sys.path.insert(0, HERE)
import xv.props  # noqa: E402

ACCEPTED = set(json.load(open(os.path.join(HERE, "tools", "accepted.json"))))
mods = []
for m in sorted(pkgutil.iter_modules(xv.props.__path__), key=lambda m: m.name):
    try:
        mod = importlib.import_module(f"xv.props.{m.name}")
    except Exception:
        continue
    if getattr(mod, "ID", None) in ACCEPTED:
        mods += list(getattr(mod, "GEN_MODULES", ())) + list(mod.PROPS_MODULES)
print(" ".join(dict.fromkeys(mods)))
