#!/venv/bin/python
"""Regenerate MANIFEST.json from the property modules (xv/props/cXX.py) and tools/not_applicable.json."""
import importlib
import json
import os
import pkgutil
import sys

sys.dont_write_bytecode = True
HERE = os.path.dirname(os.path.dirname(os.path.abspath(__file__)))
sys.path.insert(0, HERE)
import xv.props  # noqa: E402

ALL = [f"C{i:02d}" for i in range(1, 21)]
# a property is claimed only after its check has been validated on the unchanged tree and against seeded changes
ACCEPTED = set(json.load(open(os.path.join(HERE, "tools", "accepted.json"))))
under_construction = set()
checks = []
claimed = set()
for m in sorted(pkgutil.iter_modules(xv.props.__path__), key=lambda m: m.name):
    mod = importlib.import_module(f"xv.props.{m.name}")
    if not getattr(mod, "CLAIMED", True):
        continue
    if not hasattr(mod, "ID"):
        continue  # a helper module, not a property
    if mod.ID not in ACCEPTED:
        under_construction.add(mod.ID)
        continue
    claimed.add(mod.ID)
    checks.append(
        {
            "property_id": mod.ID,
            "quick_cmd": f"./check {mod.ID} --tier quick",
            "thorough_cmd": f"./check {mod.ID} --tier thorough",
            "evidence_file": f"/verif/evidence/{mod.ID}.json",
            "replay_cmd_template": f"./check {mod.ID} --replay {{path}}",
            "engine": "lean4-proof+correspondence",
            "level_claimed": {
                "category": mod.LEVEL,
                "text": mod.LEVEL_TEXT,
                "design_ref": f"DESIGN.md §5 {mod.ID}",
            },
            "level_note": mod.LEVEL_NOTE,
            "technique": mod.TECHNIQUE,
        }
    )
na_file = os.path.join(HERE, "tools", "not_applicable.json")
na = json.load(open(na_file)) if os.path.exists(na_file) else {}
not_applicable = [
    {
        "property_id": p,
        "reason": na.get(
            p,
            "check under construction: its model and harness exist but have not yet been validated on the unchanged tree and against seeded changes, so it is not claimed"
            if p in under_construction
            else "check not built yet: no Lean model/theorems for this property are committed, so it is not claimed",
        ),
    }
    for p in ALL
    if p not in claimed
]
hooks_file = os.path.join(HERE, "tools", "hooks.json")
hooks = json.load(open(hooks_file))
manifest = {
    "version": 1,
    "setup_cmd": "./setup.sh",
    "hooks": hooks,
    "engines": [
        {
            "name": "lean4-proof+correspondence",
            "path": "check",
            "serves_properties": sorted(claimed),
            "kind_free_text": "Lean 4 theorems over executable models (lean/XonshVerif); models tied to /repo by a Python->Lean "
            "translator (translator/) regenerating Gen/*.lean on every run and/or a correspondence harness (xv/props) "
            "that runs the model (xvdriver line protocol) and the real code on the same inputs",
        }
    ],
    "checks": checks,
    "not_applicable": not_applicable,
    "notes": "Every check: ./check <id> --tier quick|thorough (honours VERIF_SEED, VERIF_TIER). exit 0 ok (KNOWN-FINDING lines allowed), "
    "1 VIOLATION, 2 infrastructure. Known findings: known_findings.json. See DESIGN.md.",
}
json.dump(manifest, open(os.path.join(HERE, "MANIFEST.json"), "w"), indent=1)
print(f"MANIFEST.json: {len(checks)} checks, {len(not_applicable)} not claimed")
