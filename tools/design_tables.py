#!/usr/bin/env python3
"""Regenerate the machine-written tables of DESIGN.md (between <!-- BEGIN x --> / <!-- END x --> markers):
seeded changes vs checks (from seeded/*/meta.json) and findings (from known_findings.json)."""
import glob
import json
import os
import re

HERE = os.path.dirname(os.path.dirname(os.path.abspath(__file__)))


def cell(s, n=400):
    s = " ".join(str(s).split()).replace("|", "\\|")
    return s if len(s) <= n else s[: n - 1] + "…"


def seeded():
    rows = ["| seed | what was changed | caught | by what |", "|---|---|---|---|"]
    for f in sorted(glob.glob(os.path.join(HERE, "seeded", "*", "meta.json"))):
        m = json.load(open(f))
        det = m["detected_by_check"]
        if m.get("obsolete_since"):
            det += f" (obsolete since {m['obsolete_since']}: {cell(m.get('obsolete_why', ''), 160)})"
        rows.append(f"| {m['id']} | {cell(m['summary'], 300)} | {det} | {cell(m['detected_how'], 420)} |")
    return "\n".join(rows)


def findings():
    k = json.load(open(os.path.join(HERE, "known_findings.json")))
    rows = ["| property | key | status | what fails |", "|---|---|---|---|"]
    for f in k["findings"]:
        rows.append(f"| {f['property']} | `{f['key']}` | {f['status']} | {cell(f['what'], 420)} |")
    rows.append("")
    rows.append("Repairs committed to /repo (`fixed:` lines of known_findings.json):")
    rows.append("")
    for s in k["fixed"]:
        rows.append(f"* {cell(s, 500)}")
    return "\n".join(rows)


def status():
    import importlib
    import sys

    sys.path.insert(0, HERE)
    sys.dont_write_bytecode = True
    accepted = set(json.load(open(os.path.join(HERE, "tools", "accepted.json"))))
    out = []
    for f in sorted(glob.glob(os.path.join(HERE, "xv", "props", "c*.py"))):
        mod = importlib.import_module("xv.props." + os.path.basename(f)[:-3])
        if not hasattr(mod, "ID") or mod.ID not in accepted:
            continue
        thms = []
        for pm in mod.PROPS_MODULES:
            src = open(os.path.join(HERE, "lean", *pm.split(".")) + ".lean").read()
            thms += re.findall(rf"^theorem ({mod.ID}_\w+)", src, re.M)
        ev = {}
        try:
            ev = json.load(open(os.path.join(HERE, "evidence", mod.ID + ".json")))["coverage"]
        except Exception:
            pass
        streams = ", ".join(f"{k} ({v.get('evaluations')})" for k, v in (ev.get("streams") or {}).items())
        out.append(f"**{mod.ID}** — level `{mod.LEVEL}`. {' '.join(mod.LEVEL_TEXT.split())}")
        out.append("")
        out.append(f"*Theorems checked on every run:* {', '.join('`' + t + '`' for t in thms)}.")
        out.append("")
        out.append(f"*Tie streams (evaluations in the last quick run):* {streams or 'n/a'}. *Note:* {' '.join(mod.LEVEL_NOTE.split())}")
        out.append("")
    return "\n".join(out)


def main():
    p = os.path.join(HERE, "DESIGN.md")
    s = open(p).read()
    for name, fn in (("seeded-table", seeded), ("findings-table", findings), ("status-table", status)):
        pat = re.compile(rf"(<!-- BEGIN {name} -->\n)(.*?)(<!-- END {name} -->)", re.S)
        if not pat.search(s):
            print("marker missing:", name)
            continue
        s = pat.sub(lambda m: m.group(1) + fn() + "\n" + m.group(3), s)
    open(p, "w").write(s)
    print("DESIGN.md tables regenerated")


if __name__ == "__main__":
    main()
